#!/bin/bash
# tools_try_patch.sh <patch.diff> <PROP> [seed] [tier] [name]
# Run a check against a seeded change WITHOUT touching /repo: the change is applied in a scratch worktree of /repo's HEAD
# and the check is pointed at it with VERIF_REPO. With a name given, minimised replays are kept as regress/<PROP>/seeded-<name>-<n>.json
# after verifying that they hold on the unchanged tree.
set -u
PATCH=$1; PROP=$2; SEED=${3:-0}; TIER=${4:-quick}; NAME=${5:-}
WT=/tmp/mut/apply_$$
git -C /repo worktree add -q --detach $WT HEAD || exit 2
cp /repo/whatshap/_version.py $WT/whatshap/ 2>/dev/null
(cd $WT && git apply "$PATCH") || { echo "PATCH DOES NOT APPLY"; git -C /repo worktree remove --force $WT; exit 2; }
cd /verif
mkdir -p /tmp/mut/replays_$$
before=$(ls replays/ 2>/dev/null | sort)
VERIF_REPO=$WT VERIF_SEED=$SEED ./vcheck run $PROP --tier $TIER 2>&1 | grep -v "bcf_hdr\|vcf_parse\|vcf_format\|^\[build" | grep -E "^\[|^VIOLATION|^violation|^  |HARNESS|KNOWN" | cut -c1-400
after=$(ls replays/ 2>/dev/null | sort)
git -C /repo worktree remove --force $WT
if [ -n "$NAME" ]; then
  n=0
  for f in $(comm -13 <(echo "$before") <(echo "$after")); do
    case $f in ${PROP}-*.json) ;; *) continue;; esac
    n=$((n+1)); mkdir -p regress/$PROP; cp replays/$f regress/$PROP/seeded-$NAME-$n.json
    out=$(./vcheck replay regress/$PROP/seeded-$NAME-$n.json 2>&1 | tail -1)
    case "$out" in "no violation"*) echo "  kept regress/$PROP/seeded-$NAME-$n.json (holds on the unchanged tree)";; *) echo "  !! $f does not hold on the unchanged tree ($out): not kept"; rm regress/$PROP/seeded-$NAME-$n.json;; esac
  done
fi
