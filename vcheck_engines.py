ENGINES = {
    "C18": "sim.adtsim",
    "C09": "sim.histsim",
    "C13": "sim.histsim",
    "C17": "sim.histsim",
    "C16": "sim.nodesim",
}
