#!/bin/bash
# tools_collect_regress.sh <patch.diff> <PROP> <name> [seed]: apply a seeded change to /repo, run the quick check, keep the
# minimised replay files as regression cases, revert; then verify that they hold on the unchanged tree.
set -u
PATCH=$1; PROP=$2; NAME=$3; SEED=${4:-0}
cd /repo && git apply "$PATCH" || exit 2
cd /verif && rm -f replays/${PROP}-*.json
VERIF_SEED=$SEED ./vcheck run $PROP --tier quick 2>&1 | grep -E "^VIOLATION|^\[" 
git -C /repo checkout -- .
mkdir -p regress/$PROP
n=0
for f in replays/${PROP}-*.json; do
  [ -e "$f" ] || continue
  n=$((n+1)); cp $f regress/$PROP/seeded-$NAME-$n.json
  out=$(./vcheck replay regress/$PROP/seeded-$NAME-$n.json 2>&1 | tail -1)
  echo "  regress/$PROP/seeded-$NAME-$n.json on the unchanged tree: $out"
  case "$out" in "no violation"*) ;; *) echo "  !! does not hold on the unchanged tree: removed"; rm regress/$PROP/seeded-$NAME-$n.json;; esac
done
git -C /repo status --short
