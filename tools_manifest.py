#!/usr/bin/env python3
"""Regenerates MANIFEST.json from one place, so that it stays valid and in step with what is built."""
import json, os, sys

HERE = os.path.dirname(os.path.abspath(__file__))

NA = {
 "C01": "pure function of (read matrix, genotypes, pedigree, costs): no schedule, clock, fault or history for a simulator to own; deciding minimality is input enumeration against a brute-force oracle, a different technique",
 "C02": "whole-pipeline input->output statement; nothing in it depends on an interleaving, clock, fault or history",
 "C03": "phase-set structure is a function of one run's read/variant incidence; nothing to schedule or interleave",
 "C04": "a single streaming pass over one file; the reader/writer interleaving is fixed by the input",
 "C05": "Mendelian consistency and paternal|maternal order are functions of genotypes, reads and costs",
 "C06": "allele detection is a pure function of (reference, variant, CIGAR, bases)",
 "C07": "the coverage cap is a function of the read set and k; the selection loop has no nondeterminism",
 "C08": "the forward-backward posterior is a pure numeric function; an oracle would be a second implementation over generated inputs",
 "C10": "haplotag's conservation and decision rule are functions of (VCF, BAM, options); its runtime dimension (compression threads, hash seed) is decided under C16",
 "C11": "compare's metrics are pure functions of two phasings; label-permutation invariance is an input symmetry, not a schedule",
 "C12": "stats is a pure counting function of one file",
 "C14": "split is one deterministic pass routing records by a lookup table",
 "C15": "polyphase's genotype conformance and block shape are input->output; its worker pool is decided under C16",
 "C19": "genotype indexing and edit distance are pure functions of small arguments",
 "C20": "the auxiliary lists are a function of one run's inputs; no fault, schedule or multi-run history is needed to decide it",
}

CHECKS = {
 "C18": dict(
   engine="adtsim",
   technique="deterministic simulation: seeded operation histories against a lock-step reference model (dict / set partition), invariants after every operation, ddmin-minimised replay file",
   level_text="Seeded exploration of operation histories on the real PriorityQueue (Cython/C++) and ComponentFinder (scalar/tuple/mixed-length/extreme scores passed as int, tuple, list or one-shot iterator; several live instances operated in turn) with a reference model checked after every operation over the whole item domain; evidence, not proof. No faults are injected because this interface has none.",
   level_note="Trusts the reference models (a dict and an explicit set partition, ~30 lines) and the caller contract (push only un-queued items, change_score only queued ones, merge(x,y) with x != y).",
   design_ref="DESIGN.md §4 C18"),
 "C09": dict(
   engine="histsim",
   technique="deterministic simulation: seeded histories of phase/unphase/re-phase runs over one variant file against an abstract phase-store model; what each run wrote is captured at the writer seam",
   level_text="Seeded exploration of operation histories (phase with PS/HP tag, library, sample/chromosome subset in any order, pedigree mode on family worlds (--ped, --use-ped-samples, --no-genetic-haplotyping), --only-snvs, --distrust-genotypes, rarely used algorithms and options, bcf/bgzip outputs, DEBUG logging; phase from a phased VCF; unphase), every operation a process of its own running the real whatshap code on generated worlds, with round-trip, no-mixing, isolation, PS/HP-equivalence and block-reproduction oracles evaluated after every operation; plus a regression corpus of minimised histories.",
   level_note="Trusts pysam/htslib for reading what was written, the world generator (error-free reads of known haplotypes) and the writer-seam capture (PhasedVcfWriter.write arguments) as the definition of 'the phase that was written'.",
   design_ref="DESIGN.md §4 C09"),
 "C13": dict(
   engine="histsim",
   technique="deterministic simulation: seeded histories of phase/unphase applications over VCFs of arbitrary call shapes against a record-level model of the file with phase stripped",
   level_text="Seeded exploration: unphase is applied inside histories (after 0..n phase runs, twice in a row) to generated VCFs with haploid, polyploid, missing, partially missing, mixed-separator and GT-less records, records without ALT, headers without (some) contig lines, without declarations of the phase tags or with declarations no record uses, plain and bgzipped; output compared field by field with an independent pysam-level model and with the GT text; plus a regression corpus.",
   level_note="Trusts pysam/htslib parsing of both files and the generator's notion of 'well-formed VCF' (everything htslib reads without error).",
   design_ref="DESIGN.md §4 C13"),
 "C17": dict(
   engine="histsim",
   technique="deterministic simulation: seeded histories phase -> haplotag (-> re-haplotag) -> (partial) unphase -> haplotagphase over generated worlds, reference = the phasing that tagged the reads",
   level_text="Seeded exploration of the four-subcommand pipeline (each step a process) on generated diploid worlds with error-free reads, linked reads, uncalled genotypes, pre-tagged BAMs, read names reused across chromosomes, partially phased and harness-rendered tagging VCFs with arbitrary set ids; every variant haplotagphase phases is compared with the phased VCF that tagged the reads (orientation and phase set; set must exist in it; orientation must match the reads), already phased variants must be identical; proviso (reads or read clouds spanning two phase sets) computed from the world; plus a regression corpus.",
   level_note="Trusts the world generator (reads are exact copies of the true haplotypes), pysam, and the decoder VcfReader(phases=True) as observation point.",
   design_ref="DESIGN.md §4 C17"),
 "C16": dict(
   engine="nodesim",
   technique="deterministic simulation: every scenario executed by several simulated runtime nodes (hash seed x worker-pool schedule under a seeded dispatcher x thread counts x clock faults x dirty-directory / second execution x process environment x shared or private scratch space (TMPDIR, HOME) x --debug x file modification times) and compared record-for-record with a fault-free reference node",
   level_text="Seeded search over runtime configurations and worker-pool schedules for every subcommand (90 verified command lines over the repo's own inputs plus generated worlds with ties and collisions); all nodes' normalised outputs and exit status must equal the reference node's. Pool scheduling (dispatch, delivery, ready()/timed-wait polling, concurrent.futures) is owned by SimPool with real forked workers, the clock and dates by SimClock; a regression corpus of minimised cases from the seeded changes of DESIGN.md \u00a712 and 4 repaired defects is replayed on every run.",
   level_note="Not behind a seam and therefore uncontrolled: htslib compression threads (only their number is chosen), the external cbc solver, memory addresses (perturbed only as a side effect of node configuration). Hash-seed sampling realises set orders jointly, not independently. A scenario whose reference disagrees with its identically configured twin is re-run and reported only if the disagreement persists; node time-outs are inconclusive, never an alarm.",
   design_ref="DESIGN.md §4 C16, §10, §12"),
}

BUILT = [l.strip() for l in open(os.path.join(HERE, "BUILT")).read().split() if l.strip()]

def main():
    checks = []
    for pid in sorted(BUILT):
        c = CHECKS[pid]
        checks.append({
            "property_id": pid,
            "quick_cmd": "./vcheck run %s --tier quick" % pid,
            "thorough_cmd": "./vcheck run %s --tier thorough" % pid,
            "evidence_file": "/verif/evidence/%s.json" % pid,
            "replay_cmd_template": "./vcheck replay {path}",
            "engine": c["engine"],
            "level_claimed": {"category": "exploration", "text": c["level_text"], "design_ref": c["design_ref"]},
            "level_note": c["level_note"],
            "technique": c["technique"],
        })
    na = [{"property_id": k, "reason": v} for k, v in sorted(NA.items())]
    for pid in sorted(CHECKS):
        if pid not in BUILT:
            na.append({"property_id": pid, "reason": "claimed in DESIGN.md (%s) but its check is not built yet in this commit; listed here only until it is" % CHECKS[pid]["design_ref"]})
    na.sort(key=lambda x: x["property_id"])
    engines = [
        {"name": "adtsim", "path": "sim/adtsim.py", "serves_properties": ["C18"], "kind_free_text": "operation-history simulator with lock-step reference models"},
        {"name": "histsim", "path": "sim/histsim.py", "serves_properties": ["C09", "C13", "C17"], "kind_free_text": "operator simulator: seeded histories of whatshap subcommands over the files of one generated world, reference model in lock-step"},
        {"name": "nodesim", "path": "sim/nodesim.py", "serves_properties": ["C16"], "kind_free_text": "runtime simulator: nodes = interpreter instances with drawn hash seed, SimPool schedule, SimClock script, thread counts, dirty directory"},
    ]
    m = {
        "version": 1,
        "setup_cmd": "./setup.sh",
        "hooks": {
            "guard": "WHATSHAP_VERIF",
            "enable": "no source hooks exist: every seam is an existing module attribute, environment variable or command-line option, patched from /verif at run time; checks build /repo's working tree out-of-tree into a scratch directory (sim/build.py) and import it from there",
            "baseline_off_cmd": "cd /repo && /venv/bin/python -m pytest -ra -q -p no:cacheprovider --timeout=900 --continue-on-collection-errors",
            "source_commits": json.load(open(os.path.join(HERE, "repo_commits.json")))["hooks"],
            "add_only": True,
        },
        "engines": [e for e in engines if any(p in BUILT for p in e["serves_properties"])],
        "checks": checks,
        "not_applicable": na,
        "notes": "Technique: deterministic simulation with fault injection. Exit codes of every check: 0 held, 1 violation (with VIOLATION line and replay file), 2 could not evaluate. fix: commits in /repo are listed in repo_commits.json and known_findings.json.",
    }
    with open(os.path.join(HERE, "MANIFEST.json"), "w") as f:
        json.dump(m, f, indent=1)
        f.write("\n")

main()
