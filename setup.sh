#!/bin/sh
# Offline setup: build /repo's working tree into the scratch, then run the determinism self-test (quick size).
# The build must succeed.  The self-test result is printed and kept in selftest.log; a failing self-test is loud but does not
# make setup fail: every check replays its violations in a fresh interpreter before reporting them, so a determinism problem
# of the harness shows up there as exit 2 ("did not reproduce"), never as a false VIOLATION.
cd "$(dirname "$0")"
./vcheck build >/dev/null || exit 1
./vcheck selftest --quick 2>&1 | tee selftest.log
if grep -q "SELFTEST FAIL" selftest.log; then
  echo "WARNING: determinism self-test failed (see selftest.log)"
fi
exit 0
