#!/bin/sh
# Offline setup: build /repo's working tree into the scratch and smoke-test the harness.
set -e
cd "$(dirname "$0")"
./vcheck build >/dev/null
exec ./vcheck selftest --quick
