"""
Determinism self-test (DESIGN §6): the same seed must give the same event-log digests whatever the
number of worker processes and whatever the hash seed of the harness interpreter itself.
"""
import os
import subprocess
import sys

from . import harness

VERIF = harness.VERIF

SIZES = {  # property -> (cases quick, cases full, per_batch)
    "C18": (600, 6000, 150),
    "C09": (24, 200, 4),
    "C13": (24, 200, 4),
    "C17": (16, 120, 4),
    "C16": (2, 8, 1),
}


def digest_run(engine, prop, seed, cases, jobs, per_batch, tier="quick"):
    batches = [(engine, prop, seed, tier, s, min(per_batch, cases - s)) for s in range(0, cases, per_batch)]
    results = harness.forkmap(harness._run_batch, batches, jobs, timeout=600)
    digs = []
    for st, val in results:
        if st != "ok":
            raise RuntimeError("batch failed in selftest: %s %s" % (st, val))
        digs.extend(val["digests"])
    return harness.digest(sorted(digs)), dict(digs)


def main(args):
    import importlib
    from vcheck_engines import ENGINES  # noqa

    built = open(os.path.join(VERIF, "BUILT")).read().split()
    props = [p for p in args.props.split(",") if p in built]
    sub = os.environ.get("VERIF_SELFTEST_CHILD")
    rc = 0
    for prop in props:
        engine = importlib.import_module(ENGINES[prop]).ENGINE
        q, full, per = SIZES[prop]
        cases = args.cases or (q if args.quick else full)
        seed = int(os.environ.get("VERIF_SEED", "0") or 0)
        if sub:
            d, _ = digest_run(engine, prop, seed, cases, 3, per)
            print("DIGEST %s %s" % (prop, d))
            continue
        d1, m1 = digest_run(engine, prop, seed, cases, 2, per)
        d2, m2 = digest_run(engine, prop, seed, cases, 7, per)
        env = dict(os.environ)
        env["PYTHONHASHSEED"] = "123"
        env["VERIF_SELFTEST_CHILD"] = "1"
        env["VERIF_QUIET_BUILD"] = "1"
        r = subprocess.run([os.path.join(VERIF, "vcheck"), "selftest", "--props", prop, "--cases", str(cases)],
                           env=env, capture_output=True, text=True)
        d3 = None
        for line in r.stdout.splitlines():
            if line.startswith("DIGEST %s " % prop):
                d3 = line.split()[2]
        ok = d1 == d2 == d3
        if not ok:
            diff = [i for i in m1 if m1[i] != m2.get(i)]
            print("SELFTEST FAIL %s: digests jobs=2 %s, jobs=7 %s, hashseed=123 %s; differing cases (jobs) %s\n%s" % (
                prop, d1[:12], d2[:12], (d3 or "none")[:12], diff[:10], r.stderr[-1500:]))
            rc = 2
        else:
            print("selftest %s: %d cases x 3 runs (jobs 2, jobs 7, fresh interpreter with PYTHONHASHSEED=123) identical, digest %s" % (prop, cases, d1[:12]))
    return rc
