"""
Determinism self-test (DESIGN §6): the same seed must give the same event-log digests whatever the
number of worker processes and whatever the hash seed of the harness interpreter itself.
"""
import os
import subprocess
import sys

from . import harness

VERIF = harness.VERIF

SIZES = {  # property -> (cases quick, cases full, per_batch)
    "C18": (600, 6000, 150),
    "C09": (24, 200, 4),
    "C13": (24, 200, 4),
    "C17": (16, 120, 4),
    "C16": (2, 8, 1),
}


def digest_run(engine, prop, seed, cases, jobs, per_batch, tier="quick"):
    batches = [(engine, prop, seed, tier, s, min(per_batch, cases - s)) for s in range(0, cases, per_batch)]
    results = harness.forkmap(harness._run_batch, batches, jobs, timeout=600)
    digs = []
    for st, val in results:
        if st != "ok":
            raise RuntimeError("batch failed in selftest: %s %s" % (st, val))
        digs.extend(val["digests"])
    return harness.digest(sorted(digs)), dict(digs)


def _sq(x):
    return x * x


def _boom(x):
    if x == 3:
        raise ValueError("boom %d" % x)
    return x


_STATE = {"n": 0}


def _stateful(x):
    _STATE["n"] += 1
    return (x, _STATE["n"])


def simpool_selftest():
    """SimPool must behave like multiprocessing.Pool for every API it offers, under every dispatcher mode."""
    from . import seams

    problems = []
    for mode in ("fifo", "random", "skewed", "stalled"):
        for seed in range(3):
            seams.configure_pool(mode, [seed * 7 + k for k in range(5)], seed)
            with seams.SimPool(processes=3) as pool:
                rs = [pool.apply_async(_sq, (i,)) for i in range(9)]
                got = [r.get() for r in rs]
                if got != [i * i for i in range(9)]:
                    problems.append("apply_async/get %s/%d: %r" % (mode, seed, got))
                if pool.map(_sq, range(11)) != [i * i for i in range(11)]:
                    problems.append("map %s/%d" % (mode, seed))
                if pool.starmap(pow, [(2, 3), (3, 2)]) != [8, 9]:
                    problems.append("starmap %s/%d" % (mode, seed))
                if list(pool.imap(_sq, range(7))) != [i * i for i in range(7)]:
                    problems.append("imap %s/%d" % (mode, seed))
                if sorted(pool.imap_unordered(_sq, range(7))) != [i * i for i in range(7)]:
                    problems.append("imap_unordered %s/%d" % (mode, seed))
                r = pool.apply_async(_boom, (3,))
                try:
                    r.get()
                    problems.append("exception not propagated %s/%d" % (mode, seed))
                except ValueError:
                    pass
                seen = []
                pool.apply_async(_sq, (5,), callback=seen.append).wait()
                if seen != [25]:
                    problems.append("callback %s/%d" % (mode, seed))
                # worker-local state survives from job to job (as in the real pool)
                counts = [c for _, c in pool.map(_stateful, range(12), chunksize=1)]
                if max(counts) < 2:
                    problems.append("worker state not kept %s/%d" % (mode, seed))
            # same script => same dispatch and delivery orders
            orders = []
            for _ in range(2):
                seams.configure_pool(mode, [seed * 7 + k for k in range(5)], seed)
                with seams.SimPool(processes=3) as pool:
                    [r.get() for r in [pool.apply_async(_sq, (i,)) for i in range(8)]]
                    orders.append((tuple(pool._dispatch_order), tuple(pool._delivery_order)))
            if orders[0] != orders[1]:
                problems.append("schedule not repeatable %s/%d: %r" % (mode, seed, orders))
    # concurrent.futures on top of the dispatcher
    import concurrent.futures as cf

    for mode in ("fifo", "random", "stalled"):
        seams.configure_pool(mode, [3, 1, 4, 1, 5], 9)
        with seams.SimExecutor(max_workers=3) as ex:
            futs = [ex.submit(_sq, i) for i in range(8)]
            got = sorted(f.result() for f in seams._sim_as_completed(futs))
            if got != [i * i for i in range(8)]:
                problems.append("as_completed %s: %r" % (mode, got))
            if list(ex.map(_sq, range(5))) != [0, 1, 4, 9, 16]:
                problems.append("executor.map %s" % mode)
            f = ex.submit(_boom, 3)
            if not isinstance(f.exception(), ValueError):
                problems.append("executor exception %s" % mode)
            d, nd = seams._sim_wait([ex.submit(_sq, 2), ex.submit(_sq, 3)])
            if sorted(x.result() for x in d) != [4, 9] or nd:
                problems.append("wait %s" % mode)
    fired = {}
    for mode in ("random", "skewed", "stalled"):
        seams.configure_pool(mode, [], 11)
        with seams.SimPool(processes=3) as pool:
            pool.map(_sq, range(30), chunksize=1)
        for k in ("reorder-dispatch", "reorder-delivery", "skewed-load", "stalled-worker"):
            fired[k] = fired.get(k, 0) + seams.POOL_STATS[k]
    for k, n in fired.items():
        if n == 0:
            problems.append("fault kind %s never fired in the pool self-test" % k)
    return problems


def main(args):
    if not os.environ.get("VERIF_SELFTEST_CHILD"):
        probs = simpool_selftest()
        if probs:
            print("SELFTEST FAIL SimPool: " + "; ".join(probs[:5]))
            return 2
        print("selftest SimPool: API equivalence under fifo/random/skewed/stalled x 3 scripts, schedules repeat, every pool fault kind fires")
    import importlib
    from vcheck_engines import ENGINES  # noqa

    built = open(os.path.join(VERIF, "BUILT")).read().split()
    props = [p for p in args.props.split(",") if p in built]
    sub = os.environ.get("VERIF_SELFTEST_CHILD")
    rc = 0
    for prop in props:
        engine = importlib.import_module(ENGINES[prop]).ENGINE
        q, full, per = SIZES[prop]
        cases = args.cases or (q if args.quick else full)
        seed = int(os.environ.get("VERIF_SEED", "0") or 0)
        if sub:
            d, _ = digest_run(engine, prop, seed, cases, 3, per)
            print("DIGEST %s %s" % (prop, d))
            continue
        d1, m1 = digest_run(engine, prop, seed, cases, 2, per)
        d2, m2 = digest_run(engine, prop, seed, cases, 7, per)
        env = dict(os.environ)
        env["PYTHONHASHSEED"] = "123"
        env["VERIF_SELFTEST_CHILD"] = "1"
        env["VERIF_QUIET_BUILD"] = "1"
        r = subprocess.run([os.path.join(VERIF, "vcheck"), "selftest", "--props", prop, "--cases", str(cases)],
                           env=env, capture_output=True, text=True)
        d3 = None
        for line in r.stdout.splitlines():
            if line.startswith("DIGEST %s " % prop):
                d3 = line.split()[2]
        ok = d1 == d2 == d3
        if not ok:
            diff = [i for i in m1 if m1[i] != m2.get(i)]
            print("SELFTEST FAIL %s: digests jobs=2 %s, jobs=7 %s, hashseed=123 %s; differing cases (jobs) %s\n%s" % (
                prop, d1[:12], d2[:12], (d3 or "none")[:12], diff[:10], r.stderr[-1500:]))
            rc = 2
        else:
            print("selftest %s: %d cases x 3 runs (jobs 2, jobs 7, fresh interpreter with PYTHONHASHSEED=123) identical, digest %s" % (prop, cases, d1[:12]))
    return rc
