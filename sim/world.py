"""
The lab (DESIGN §1): explicit worlds — reference, true haplotypes, variant file in many legal
renderings, read libraries — generated from one PRNG and materialised as real files.

A world is a plain dict (JSON-serialisable) so that a shrinker can edit it and a replay does not
depend on the generator's code path:

  chroms    [{"name", "seq"}]
  samples   [name, ...]                      (VCF column order)
  records   [{"chrom": idx, "pos": 0-based, "id", "ref", "alts": [...], "qual", "filter", "info",
              "format": [keys], "calls": {sample: [values as VCF text]}, "core": bool}]
             core records are biallelic, at unique well separated positions, and have a truth
  truth     {name: {sample: [[allele per core record] x ploidy]}}  name = "main" | "alt" ...
  libs      {lib: {"truth": name, "reads": [{"name","sample","chrom","start","end","hap","mapq","flag"}]}}
  header    extra header lines (##...) besides the ones derived from the content
"""

import os

BASES = "ACGT"


# ------------------------------------------------------------------------------------------------
# generation


def rand_seq(rng, n, homopolymers=0):
    s = [rng.choice(BASES) for _ in range(n)]
    for _ in range(homopolymers):
        if n < 60:
            break
        k = rng.randrange(11, 16)
        p = rng.randrange(5, n - k - 5)
        b = rng.choice(BASES)
        for i in range(p, p + k):
            s[i] = b
    return "".join(s)


def _pick_positions(rng, length, n, min_gap, margin=25):
    """n positions in [margin, length-margin) pairwise >= min_gap apart (fewer if they do not fit)"""
    out = []
    tries = 0
    while len(out) < n and tries < n * 30:
        tries += 1
        p = rng.randrange(margin, max(margin + 1, length - margin))
        if all(abs(p - q) >= min_gap for q in out):
            out.append(p)
    return sorted(out)


def _make_variant(rng, seq, pos, kinds):
    kind = rng.choice(kinds)
    ref = seq[pos]
    if kind == "snv":
        return ref, rng.choice([b for b in BASES if b != ref])
    if kind == "ins":
        k = rng.choice([1, 1, 2, 3])
        nxt = seq[pos + 1]
        ins = [rng.choice([b for b in BASES if b != nxt])]
        for _ in range(k - 1):
            ins.append(rng.choice(BASES))
        if ins[-1] == ref:
            ins[-1] = rng.choice([b for b in BASES if b != ref and (len(ins) > 1 or b != nxt)])
        return ref, ref + "".join(ins)
    if kind == "del":
        k = rng.choice([1, 1, 2, 3])
        dele = seq[pos + 1:pos + 1 + k]
        after = seq[pos + 1 + k]
        # keep it unshiftable: first deleted base != base after the deletion, last deleted != anchor
        if dele[0] == after or dele[-1] == ref:
            return ref, rng.choice([b for b in BASES if b != ref])
        return ref + dele, ref
    if kind == "mnp":
        k = 2
        r = seq[pos:pos + k]
        a = "".join(rng.choice([b for b in BASES if b != c]) for c in r)
        return r, a
    raise ValueError(kind)


def gen_core(rng, n_chroms=None, n_samples=None, length=None, n_variants=None, ploidy=2,
             kinds=None, het_rate=None, min_gap=15, homopolymers=0, sample_names=None, first_base_variant=0.0,
             pos_coincidence=0.0):
    """reference, samples, core records with unphased sorted GT, main truth"""
    n_chroms = n_chroms or rng.choice([1, 1, 2])
    n_samples = n_samples or rng.choice([1, 2, 2, 3])
    kinds = kinds or rng.choice([["snv"], ["snv"], ["snv", "snv", "snv", "ins", "del"], ["snv", "snv", "mnp", "ins", "del"]])
    het_rate = het_rate if het_rate is not None else rng.choice([0.6, 0.8, 0.95])
    names = sample_names or rng.choice([["s1", "s2", "s3", "s4"], ["NA12878", "NA12891", "NA12892", "HG002"],
                                        ["child", "mother", "father", "sib"], ["b", "a", "C", "A0"]])
    samples = names[:n_samples]
    chrom_names = rng.choice([["chrA", "chrB", "chrC"], ["1", "2", "3"], ["ctg_b", "ctg_a", "ctg_c"]])
    chroms = []
    records = []
    truth = {s: [[] for _ in range(ploidy)] for s in samples}
    prev_last = None
    for ci in range(n_chroms):
        L = length or rng.choice([300, 600, 1000, 1500, 3000])
        if pos_coincidence and ci > 0 and prev_last is not None:
            L = max(L, prev_last + 400)
        seq = rand_seq(rng, L, homopolymers)
        chroms.append({"name": chrom_names[ci], "seq": seq})
        nv = n_variants or rng.choice([3, 4, 6, 8, 12, 18, 25])
        positions = _pick_positions(rng, L, nv, min_gap)
        if pos_coincidence and ci > 0 and prev_last is not None and rng.random() < pos_coincidence and prev_last + 2 * min_gap < L - 25:
            # the first variant of this chromosome sits at the POS of the last variant of the previous chromosome
            positions = [prev_last] + [q for q in positions if q >= prev_last + min_gap]
        if first_base_variant and rng.random() < first_base_variant and (not positions or positions[0] >= min_gap):
            positions = [0] + positions  # a variant at POS 1: its phase set gets the smallest possible id
        prev_last = positions[-1] if positions else None
        for pos in positions:
            ref, alt = _make_variant(rng, seq, pos, kinds if pos > 0 else ["snv"])
            calls = {}
            for s in samples:
                x = rng.random()
                if x < het_rate:
                    n_alt = rng.randrange(1, ploidy)
                    alleles = [1] * n_alt + [0] * (ploidy - n_alt)
                    rng.shuffle(alleles)
                elif x < het_rate + (1 - het_rate) / 2:
                    alleles = [0] * ploidy
                else:
                    alleles = [1] * ploidy
                for h in range(ploidy):
                    truth[s][h].append(alleles[h])
                calls[s] = ["/".join(str(a) for a in sorted(alleles))]
            records.append({"chrom": ci, "pos": pos, "id": ".", "ref": ref, "alts": [alt], "qual": ".",
                            "filter": "PASS", "info": ".", "format": ["GT"], "calls": calls, "core": True})
    return {"chroms": chroms, "samples": samples, "records": records, "truth": {"main": truth},
            "libs": {}, "header": [], "ploidy": ploidy}


def make_trio(rng, world):
    """
    Turn the first three samples into (child, father, mother) with a Mendelian main truth: the child's haplotypes are one
    transmitted haplotype of each parent (sometimes recombined); a fourth sample becomes a sibling or stays unrelated.
    Sets world["ped_text"].  Must be called right after gen_core (genotype texts are re-rendered sorted).
    """
    samples = world["samples"]
    assert len(samples) >= 3
    t = world["truth"]["main"]
    # the role of each sample is drawn, so that PED order, VCF column order and alphabetical order differ
    roles = list(samples[:3])
    rng.shuffle(roles)
    kid, dad, mum = roles
    kids = [kid]
    if len(samples) > 3 and rng.random() < 0.5:
        kids.append(samples[3])
    lines = []
    # core variants are listed chromosome by chromosome; recombine within a chromosome only
    cores = [r for r in world["records"] if r.get("core")]
    bounds = []
    k = 0
    for ci in range(len(world["chroms"])):
        n = sum(1 for r in cores if r["chrom"] == ci)
        bounds.append((k, k + n))
        k += n
    for kd in kids:
        mat, pat = [], []
        for lo, hi in bounds:
            hm, hf = rng.randrange(2), rng.randrange(2)
            m = list(t[mum][hm][lo:hi])
            f = list(t[dad][hf][lo:hi])
            if hi - lo > 4 and rng.random() < 0.4:
                bp = rng.randrange(2, hi - lo - 1)
                m = m[:bp] + list(t[mum][1 - hm][lo:hi])[bp:]
            if hi - lo > 4 and rng.random() < 0.25:
                bp = rng.randrange(2, hi - lo - 1)
                f = f[:bp] + list(t[dad][1 - hf][lo:hi])[bp:]
            mat += m
            pat += f
        t[kd] = [pat, mat] if rng.random() < 0.5 else [mat, pat]
        lines.append("fam1 %s %s %s 0 1" % (kd, dad, mum))
    rng.shuffle(lines)
    for k, r in enumerate(cores):
        for s in kids:
            al = sorted(h[k] for h in t[s])
            r["calls"][s][0] = "/".join(str(a) for a in al)
    world["ped_text"] = "\n".join(lines) + "\n"
    world["trio"] = {"kids": kids, "father": dad, "mother": mum}
    return world


def ped_individuals(ped_text):
    """all individuals of complete trios in a PED text (what `--use-ped-samples` selects)"""
    out = []
    for line in ped_text.splitlines():
        f = line.split()
        if len(f) < 4 or line.startswith("#"):
            continue
        if "0" in (f[1], f[2], f[3]):
            continue
        for x in (f[1], f[2], f[3]):
            if x not in out:
                out.append(x)
    return out


def core_indices(world):
    return [i for i, r in enumerate(world["records"]) if r.get("core")]


def add_alt_truth(rng, world, name="alt", flip_rate=0.4):
    """a different truth: same genotypes, a seeded subset of heterozygous sites flipped"""
    main = world["truth"]["main"]
    alt = {}
    for s, haps in main.items():
        new = [list(h) for h in haps]
        n = len(new[0])
        flipped = 0
        for k in range(n):
            col = [h[k] for h in new]
            if len(set(col)) > 1 and rng.random() < flip_rate:
                col = col[1:] + col[:1]
                for h, a in zip(new, col):
                    h[k] = a
                flipped += 1
        alt[s] = new
    world["truth"][name] = alt
    return world


def gen_library(rng, world, lib, truth="main", depth=None, read_len=None, cuts=None, samples=None,
                mapq=60, name_prefix=None, paired_rate=0.0):
    """
    Error-free reads of the named truth.  `cuts`: number of positions per chromosome that no read
    spans (they split the phasing into several sets).
    """
    depth = depth if depth is not None else rng.choice([2, 3, 5, 8, 12, 20, 30])
    reads = []
    prefix = name_prefix if name_prefix is not None else lib
    ploidy = world.get("ploidy", 2)
    for s in (samples or world["samples"]):
        serial = 0
        for ci, ch in enumerate(world["chroms"]):
            L = len(ch["seq"])
            lo, hi = read_len or rng.choice([(60, 150), (100, 300), (150, 600), (300, 1200)])
            hi = min(hi, L)
            lo = min(lo, hi)
            ncut = cuts if cuts is not None else rng.choice([0, 0, 1, 2, 3])
            cutpos = sorted(rng.randrange(30, L - 30) for _ in range(ncut)) if L > 80 else []
            mean = (lo + hi) / 2.0
            n = max(1, int(depth * L / mean))
            for _ in range(n):
                hap = rng.randrange(ploidy)
                ln = rng.randrange(lo, hi + 1)
                st = rng.randrange(0, max(1, L - ln + 1))
                en = min(L, st + ln)
                for c in cutpos:
                    if st < c < en:
                        if c - st >= en - c:
                            en = c
                        else:
                            st = c
                if en - st < 20:
                    continue
                reads.append({"name": "%s_%s_%d" % (prefix, s, serial), "sample": s, "chrom": ci,
                              "start": st, "end": en, "hap": hap, "mapq": mapq, "flag": 0})
                serial += 1
    world["libs"][lib] = {"truth": truth, "reads": reads}
    return world


def gen_library_segments(rng, world, lib, segments, truth="main", read_len=(150, 400), mapq=60):
    """
    Reads confined to segments [(chrom index, start, end, depth)]: every segment is a read-disconnected
    block with its own coverage.
    """
    reads = []
    ploidy = world.get("ploidy", 2)
    for s in world["samples"]:
        serial = 0
        for (ci, a, b, depth) in segments:
            lo, hi = read_len
            hi = min(hi, b - a)
            lo = min(lo, hi)
            mean = (lo + hi) / 2.0
            n = max(2, int(depth * (b - a) / mean))
            for _ in range(n):
                ln = rng.randrange(lo, hi + 1)
                st = rng.randrange(a, max(a + 1, b - ln + 1))
                en = min(b, st + ln)
                if en - st < 20:
                    continue
                reads.append({"name": "%s_%s_%d" % (lib, s, serial), "sample": s, "chrom": ci, "start": st, "end": en,
                              "hap": rng.randrange(ploidy), "mapq": mapq, "flag": 0})
                serial += 1
    world["libs"][lib] = {"truth": truth, "reads": reads}
    return world


# ------------------------------------------------------------------------------------------------
# materialisation


def vcf_header_lines(world):
    lines = ["##fileformat=VCFv4.2"]
    lines += list(world.get("header", []))
    have = "\n".join(lines)
    if "##FILTER=<ID=PASS" not in have:
        lines.append('##FILTER=<ID=PASS,Description="All filters passed">')
    for ch in world["chroms"]:
        if world.get("no_contig_lines"):
            break  # legal in VCF 4.2: contig lines are recommended, not required
        if ch["name"] in world.get("omit_contig_lines", ()):
            continue  # ... and a header may declare some contigs only
        if ("##contig=<ID=%s," % ch["name"]) not in have and ("##contig=<ID=%s>" % ch["name"]) not in have:
            lines.append("##contig=<ID=%s,length=%d>" % (ch["name"], len(ch["seq"])))
    fmt = set()
    info = set()
    filt = set()
    for r in world["records"]:
        fmt.update(r["format"])
        if r["info"] != ".":
            for kv in r["info"].split(";"):
                info.add(kv.split("=")[0])
        if r["filter"] not in (".", "PASS"):
            filt.update(r["filter"].split(";"))
    known_fmt = {
        "GT": '##FORMAT=<ID=GT,Number=1,Type=String,Description="Genotype">',
        "PS": '##FORMAT=<ID=PS,Number=1,Type=Integer,Description="Phase set identifier">',
        "HP": '##FORMAT=<ID=HP,Number=.,Type=String,Description="Phasing haplotype identifier">',
        "PQ": '##FORMAT=<ID=PQ,Number=1,Type=Float,Description="Phasing quality">',
        "GQ": '##FORMAT=<ID=GQ,Number=1,Type=Integer,Description="Genotype quality">',
        "DP": '##FORMAT=<ID=DP,Number=1,Type=Integer,Description="Read depth">',
        "AD": '##FORMAT=<ID=AD,Number=R,Type=Integer,Description="Allele depths">',
        "PL": '##FORMAT=<ID=PL,Number=G,Type=Integer,Description="Phred-scaled likelihoods">',
        "GL": '##FORMAT=<ID=GL,Number=G,Type=Float,Description="Genotype likelihoods">',
        "FT": '##FORMAT=<ID=FT,Number=1,Type=String,Description="Sample filter">',
        "XS": '##FORMAT=<ID=XS,Number=.,Type=String,Description="Free text per sample">',
    }
    known_info = {
        "DP": '##INFO=<ID=DP,Number=1,Type=Integer,Description="Total depth">',
        "AF": '##INFO=<ID=AF,Number=A,Type=Float,Description="Allele frequency">',
        "AC": '##INFO=<ID=AC,Number=A,Type=Integer,Description="Allele count">',
        "AN": '##INFO=<ID=AN,Number=1,Type=Integer,Description="Allele number">',
        "DB": '##INFO=<ID=DB,Number=0,Type=Flag,Description="dbSNP membership">',
        "XI": '##INFO=<ID=XI,Number=.,Type=String,Description="Free text">',
    }
    for k in sorted(fmt):
        if k in world.get("undeclared_formats", ()):
            continue  # meta-information lines are optional: htslib reads such a field as a String with a warning
        if ("##FORMAT=<ID=%s," % k) not in have:
            lines.append(known_fmt[k])
    for k in sorted(info):
        if ("##INFO=<ID=%s," % k) not in have:
            lines.append(known_info[k])
    for k in sorted(filt):
        if ("##FILTER=<ID=%s," % k) not in have:
            lines.append('##FILTER=<ID=%s,Description="%s">' % (k, k))
    # declarations no record uses (callers declare every annotation they might emit), after all used ones
    lines += list(world.get("header_tail", ()))
    return lines


def vcf_text(world):
    lines = vcf_header_lines(world)
    lines.append("\t".join(["#CHROM", "POS", "ID", "REF", "ALT", "QUAL", "FILTER", "INFO", "FORMAT"] + world["samples"]))
    recs = sorted(enumerate(world["records"]), key=lambda ir: (ir[1]["chrom"], ir[1]["pos"], ir[0]))
    for _, r in recs:
        cols = [world["chroms"][r["chrom"]]["name"], str(r["pos"] + 1), r["id"], r["ref"],
                ",".join(r["alts"]) if r["alts"] else ".", r["qual"], r["filter"], r["info"]]
        if r["format"]:
            cols.append(":".join(r["format"]))
            for s in world["samples"]:
                cols.append(":".join(r["calls"][s]))
        lines.append("\t".join(cols))
    return "\n".join(lines) + "\n"


def _read_alignment(world, lib, read):
    """sequence and CIGAR of an error-free read of its haplotype"""
    ch = world["chroms"][read["chrom"]]
    seq = ch["seq"]
    truth = world["truth"][world["libs"][lib]["truth"]][read["sample"]][read["hap"]]
    st, en = read["start"], read["end"]
    # core records of this chromosome with their index among core records
    cores = world.get("_core_cache")
    if cores is None:
        cores = {}
        k = 0
        for r in world["records"]:
            if r.get("core"):
                cores.setdefault(r["chrom"], []).append((r["pos"], r["ref"], r["alts"][0], k))
                k += 1
        for v in cores.values():
            v.sort()
        world["_core_cache"] = cores
    vars_here = cores.get(read["chrom"], [])
    # A variant is carried by the read iff the read holds its whole reference span plus one base on
    # each side of it; otherwise the read is trimmed so that it does not touch the span at all.
    changed = True
    while changed:
        changed = False
        for pos, ref, alt, k in vars_here:
            vend = pos + len(ref)
            if vend + 2 <= st or pos - 2 >= en:
                continue
            if st <= pos and vend + 1 <= en:
                continue
            # keep two clear bases between the read and a variant it does not carry: whatshap left-normalises indels
            # (an insertion after anchor p is "at p+1"), and a read that starts or ends exactly there looks as if it
            # covered the variant and showed the reference allele
            if pos - st < en - vend:
                st = vend + 2
            else:
                en = pos - 2
            changed = True
    if en - st < 10:
        return None
    out = []
    cigar = []  # (op, len) with op 0=M 1=I 2=D

    def push(op, n):
        if n <= 0:
            return
        if cigar and cigar[-1][0] == op:
            cigar[-1][1] += n
        else:
            cigar.append([op, n])

    gaps = sorted(tuple(g) for g in read.get("gaps", []) if st + 10 < g[0] < g[1] < en - 10)

    def emit_ref(a, b):
        """reference bases a..b, with the read's long deletions (CIGAR D) cut out"""
        for (ga, gb) in gaps:
            if a < gb and ga < b:
                if a < ga:
                    out.append(seq[a:ga])
                    push(0, ga - a)
                push(2, min(b, gb) - max(a, ga))
                a = min(b, gb)
        if a < b:
            out.append(seq[a:b])
            push(0, b - a)

    p = st
    for pos, ref, alt, k in vars_here:
        if pos < st or pos >= en:
            continue
        if pos < p:
            continue
        if any(ga - 3 <= pos < gb + 3 or ga - 3 <= pos + len(ref) < gb + 3 for (ga, gb) in gaps):
            continue  # inside (or touching) a deleted stretch: the read says nothing about this variant
        emit_ref(p, pos)
        allele = truth[k]
        if allele == 0:
            out.append(ref)
            push(0, len(ref))
        else:
            common = min(len(ref), len(alt))
            out.append(alt)
            if len(ref) == len(alt):
                push(0, len(ref))
            elif len(alt) > len(ref):
                push(0, common)
                push(1, len(alt) - len(ref))
            else:
                push(0, common)
                push(2, len(ref) - len(alt))
        p = pos + len(ref)
    if p < en:
        emit_ref(p, en)
    s = "".join(out)
    if cigar and cigar[-1][0] != 0:
        return None
    return st, s, [(op, n) for op, n in cigar]


def write_bam(world, lib, path, header_extra=None, read_groups=True):
    import pysam

    header = {"HD": {"VN": "1.6", "SO": "coordinate"},
              "SQ": [{"SN": c["name"], "LN": len(c["seq"])} for c in world["chroms"]]}
    samples = sorted({r["sample"] for r in world["libs"][lib]["reads"]}, key=world["samples"].index) or list(world["samples"])
    if read_groups:
        header["RG"] = [{"ID": "rg_" + s, "SM": s} for s in samples]
    if header_extra:
        header.update(header_extra)
    recs = []
    for read in world["libs"][lib]["reads"]:
        al = _read_alignment(world, lib, read)
        if al is None:
            continue
        st, seq, cigar = al
        recs.append((read["chrom"], st, read["name"], seq, cigar, read))
    recs.sort(key=lambda t: (t[0], t[1], t[2]))
    hdr = pysam.AlignmentHeader.from_dict(header)
    with pysam.AlignmentFile(path, "wb", header=hdr) as out:
        for chrom, st, name, seq, cigar, read in recs:
            a = pysam.AlignedSegment(hdr)
            a.query_name = name
            a.query_sequence = seq
            a.flag = read.get("flag", 0)
            a.reference_id = chrom
            a.reference_start = st
            a.mapping_quality = read.get("mapq", 60)
            a.cigartuples = cigar
            a.query_qualities = pysam.qualitystring_to_array(chr(33 + read.get("bq", 30)) * len(seq))
            tags = []
            if read_groups:
                tags.append(("RG", "rg_" + read["sample"]))
            for k, v in read.get("tags", []):
                tags.append((k, v))
            a.set_tags(tags)
            out.write(a)
    pysam.index(path)
    world.pop("_core_cache", None)
    return len(recs)


def write_reference(world, path):
    import pysam

    with open(path, "w") as f:
        for c in world["chroms"]:
            f.write(">%s\n" % c["name"])
            s = c["seq"]
            for i in range(0, len(s), 60):
                f.write(s[i:i + 60] + "\n")
    pysam.faidx(path)


def write_vcf(world, path):
    with open(path, "w") as f:
        f.write(vcf_text(world))


def bgzip_index(src, dst):
    """bgzip + tabix a VCF (haplotag wants an indexed file)"""
    import pysam

    pysam.tabix_compress(src, dst, force=True)
    pysam.tabix_index(dst, preset="vcf", force=True)
    return dst


def clean_world(world):
    w = dict(world)
    w.pop("_core_cache", None)
    return w
