"""Deterministic simulation machinery for whatshap/whatshap (see /verif/DESIGN.md)."""
