"""
Seams owned by the runtime simulator (DESIGN §3.3, §3.4).

SimPool   — a stand-in for multiprocessing.Pool whose *decisions* (which pending task starts on which
            idle worker, which finished result is handed back next) are taken by a scripted,
            seeded dispatcher, while everything else stays real: workers are forked at pool
            construction, arguments and results cross a pickle boundary, a worker keeps its own
            state across the jobs it happens to receive.
SimClock  — replaces whatshap.timer.time: scripted wall clock with stalls and jumps in both
            directions.

Nothing here draws from a global PRNG or reads a real clock.
"""

import os
import pickle
import random
import sys
import traceback
from multiprocessing.connection import Pipe


class Script:
    """A finite list of integers, continued by a PRNG derived from script_seed when exhausted."""

    def __init__(self, values, seed):
        self.values = list(values)
        self.i = 0
        self.rng = random.Random("script:%s" % seed)
        self.consumed = 0

    def choose(self, n):
        assert n > 0
        self.consumed += 1
        if self.i < len(self.values):
            v = self.values[self.i]
            self.i += 1
        else:
            v = self.rng.randrange(1 << 30)
        return v % n


POOL_STATS = {"pools": 0, "tasks": 0, "reorder-dispatch": 0, "reorder-delivery": 0, "skewed-load": 0,
              "stalled-worker": 0, "chunking": 0, "poll-points": 0, "orders": []}
POOL_CONFIG = {"mode": "fifo", "script": [], "seed": 0}


def configure_pool(mode, script, seed):
    POOL_CONFIG.update(mode=mode, script=list(script), seed=seed)
    for k in list(POOL_STATS):
        POOL_STATS[k] = [] if k == "orders" else 0


class _RemoteError(Exception):
    pass


def _worker_main(conn, initializer, initargs, rng_seed=None):
    try:
        # randomness is a seam too: CPython re-seeds `random` from OS entropy in every forked child; here every worker
        # gets a seed derived from the node's pool seed, so that a run replays and two nodes still differ
        random.seed("simworker:%s" % (rng_seed,))
        if initializer is not None:
            initializer(*initargs)
        while True:
            try:
                msg = conn.recv()
            except EOFError:
                break
            if msg is None:
                break
            tid, func, args, kwds = msg
            try:
                res = (tid, True, func(*args, **kwds))
            except BaseException as e:  # noqa
                res = (tid, False, (e, traceback.format_exc()))
            try:
                conn.send(res)
            except Exception as e:
                conn.send((tid, False, (RuntimeError("unpicklable result: %r" % (e,)), "")))
    finally:
        try:
            sys.stdout.flush()
            sys.stderr.flush()
        except Exception:
            pass
        os._exit(0)


class SimAsyncResult:
    def __init__(self, pool, tid, callback=None, error_callback=None):
        self._pool = pool
        self._tid = tid
        self._done = False
        self._ok = None
        self._value = None
        self._callback = callback
        self._error_callback = error_callback

    def ready(self):
        # In a real pool results arrive asynchronously: between two calls of ready() anything may have happened.
        # So a poll is a scheduling point: the dispatcher may take a few steps before the answer is given.
        self._pool._poll_point()
        return self._done

    def successful(self):
        if not self._done:
            raise ValueError("not ready")
        return self._ok

    def wait(self, timeout=None):
        if timeout is None:
            self._pool._run_until(lambda: self._done)
        else:
            # a timed wait may expire first: a bounded, scripted number of steps
            self._pool._poll_point(extra=2)

    def get(self, timeout=None):
        self.wait(timeout)
        if not self._done:
            import multiprocessing

            raise multiprocessing.TimeoutError()
        if self._ok:
            return self._value
        raise self._value

    def _set(self, ok, value):
        self._done = True
        self._ok = ok
        if ok:
            self._value = value
            if self._callback:
                self._callback(value)
        else:
            exc, tb = value
            self._value = exc
            if self._error_callback:
                self._error_callback(exc)


class _MapResult:
    """AsyncResult of a map-family call: collects chunk results in submission order."""

    def __init__(self, pool, parts, flatten, callback=None, error_callback=None):
        self._pool = pool
        self._parts = parts
        self._flatten = flatten
        self._callback = callback
        self._error_callback = error_callback
        self._fired = False

    def ready(self):
        self._pool._poll_point()
        return all(p._done for p in self._parts)

    def wait(self, timeout=None):
        if timeout is None:
            self._pool._run_until(lambda: all(p._done for p in self._parts))
        else:
            self._pool._poll_point(extra=2)

    def successful(self):
        return all(p.successful() for p in self._parts)

    def get(self, timeout=None):
        self.wait()
        out = []
        for p in self._parts:
            v = p.get()
            if self._flatten:
                out.extend(v)
            else:
                out.append(v)
        return out


def _run_chunk(func, chunk, star):
    if star:
        return [func(*a) for a in chunk]
    return [func(a) for a in chunk]


class SimPool:
    """multiprocessing.Pool under a seeded dispatcher"""

    def __init__(self, processes=None, initializer=None, initargs=(), maxtasksperchild=None, context=None):
        self._n = processes or os.cpu_count() or 1
        if self._n < 1:
            raise ValueError("Number of processes must be at least 1")
        self._script = Script(POOL_CONFIG["script"], "%s:%d" % (POOL_CONFIG["seed"], POOL_STATS["pools"]))
        self._mode = POOL_CONFIG["mode"]
        POOL_STATS["pools"] += 1
        self._workers = []
        sys.stdout.flush()
        sys.stderr.flush()
        for i in range(self._n):
            parent, child = Pipe()
            pid = os.fork()
            if pid == 0:
                parent.close()
                for w in self._workers:
                    w["conn"].close()
                _worker_main(child, initializer, initargs, "%s:%d:%d" % (POOL_CONFIG["seed"], POOL_STATS["pools"], i))
            child.close()
            self._workers.append({"conn": parent, "pid": pid, "task": None, "jobs": 0})
        self._pending = []  # (tid, func, args, kwds)
        self._results = {}  # tid -> SimAsyncResult
        self._completed = []  # (tid, ok, value) not yet delivered, in completion order
        self._next = 0
        self._closed = False
        self._terminated = False
        self._dispatch_order = []
        self._delivery_order = []
        self._favourite = self._script.choose(self._n) if self._mode in ("skewed", "stalled") else None

    # -- public API --------------------------------------------------------------------------
    def apply_async(self, func, args=(), kwds=None, callback=None, error_callback=None):
        self._check_running()
        tid = self._next
        self._next += 1
        res = SimAsyncResult(self, tid, callback, error_callback)
        self._results[tid] = res
        self._pending.append((tid, func, tuple(args), dict(kwds or {})))
        POOL_STATS["tasks"] += 1
        return res

    def apply(self, func, args=(), kwds=None):
        return self.apply_async(func, args, kwds).get()

    def _chunks(self, iterable, chunksize, star):
        items = list(iterable)
        if not items:
            return []
        if chunksize is None:
            chunksize, extra = divmod(len(items), self._n * 4)
            if extra:
                chunksize += 1
            if self._mode != "fifo" and len(items) > 1:
                chunksize = 1 + self._script.choose(max(1, min(len(items), 2 * chunksize)))
                POOL_STATS["chunking"] += 1
        return [items[i:i + chunksize] for i in range(0, len(items), chunksize)]

    def map_async(self, func, iterable, chunksize=None, callback=None, error_callback=None, _star=False):
        parts = [self.apply_async(_run_chunk, (func, ch, _star)) for ch in self._chunks(iterable, chunksize, _star)]
        return _MapResult(self, parts, True, callback, error_callback)

    def map(self, func, iterable, chunksize=None):
        return self.map_async(func, iterable, chunksize).get()

    def starmap_async(self, func, iterable, chunksize=None, callback=None, error_callback=None):
        return self.map_async(func, iterable, chunksize, callback, error_callback, _star=True)

    def starmap(self, func, iterable, chunksize=None):
        return self.starmap_async(func, iterable, chunksize).get()

    def imap(self, func, iterable, chunksize=1):
        parts = [self.apply_async(_run_chunk, (func, ch, False)) for ch in self._chunks(iterable, chunksize or 1, False)]

        def gen():
            for p in parts:
                for v in p.get():
                    yield v

        return gen()

    def imap_unordered(self, func, iterable, chunksize=1):
        parts = [self.apply_async(_run_chunk, (func, ch, False)) for ch in self._chunks(iterable, chunksize or 1, False)]
        tids = {p._tid for p in parts}

        def gen():
            seen = 0
            yielded = set()
            while len(yielded) < len(parts):
                self._run_until(lambda: any(t in tids and t not in yielded for t in self._delivery_order))
                for t in list(self._delivery_order):
                    if t in tids and t not in yielded:
                        yielded.add(t)
                        for v in self._results[t].get():
                            yield v

        return gen()

    def close(self):
        self._closed = True

    def join(self):
        if not self._closed and not self._terminated:
            raise ValueError("Pool is still running")
        if not self._terminated:
            self._run_until(lambda: not self._pending and not self._completed and all(w["task"] is None for w in self._workers))
            self._shutdown()

    def terminate(self):
        if self._terminated:
            return
        self._pending = []
        self._shutdown()

    def __enter__(self):
        self._check_running()
        return self

    def __exit__(self, *exc):
        self.terminate()

    def __del__(self):
        try:
            self.terminate()
        except Exception:
            pass

    # -- dispatcher --------------------------------------------------------------------------
    def _check_running(self):
        if self._closed or self._terminated:
            raise ValueError("Pool not running")

    def _shutdown(self):
        self._terminated = True
        if len(self._dispatch_order) > 1 and len(POOL_STATS["orders"]) < 64:
            POOL_STATS["orders"].append((tuple(self._dispatch_order), tuple(self._delivery_order)))
        for w in self._workers:
            try:
                w["conn"].send(None)
            except Exception:
                pass
        for w in self._workers:
            try:
                w["conn"].close()
            except Exception:
                pass
            try:
                os.waitpid(w["pid"], 0)
            except ChildProcessError:
                pass

    def _idle(self):
        return [i for i, w in enumerate(self._workers) if w["task"] is None]

    def _busy(self):
        return [i for i, w in enumerate(self._workers) if w["task"] is not None]

    def _step(self):
        """one scheduling decision; returns False if nothing is enabled"""
        mode = self._mode
        idle, busy = self._idle(), self._busy()
        can_dispatch = bool(self._pending) and bool(idle)
        can_complete = bool(busy)
        if mode == "skewed" and self._pending and idle:
            # one worker receives (nearly) everything: dispatch to the favourite only, unless nothing else can move
            can_dispatch = self._favourite in idle or (not busy and not self._completed)
        deliverable = list(range(len(self._completed)))
        if mode == "stalled" and deliverable:
            # what the favourite worker produced is withheld as long as anything else can move
            rest = [i for i in deliverable if self._completed[i][3] != self._favourite]
            if rest:
                if len(rest) < len(deliverable):
                    POOL_STATS["stalled-worker"] += 1
                deliverable = rest
            elif can_dispatch or can_complete:
                POOL_STATS["stalled-worker"] += 1
                deliverable = []
        can_deliver = bool(deliverable)
        kinds = [k for k, ok in (("dispatch", can_dispatch), ("complete", can_complete), ("deliver", can_deliver)) if ok]
        if not kinds:
            return False
        if mode == "fifo":
            kind = kinds[0]
        else:
            kind = kinds[self._script.choose(len(kinds))]
        if kind == "dispatch":
            if mode == "fifo":
                ti, wi = 0, idle[0]
            elif mode == "skewed":
                ti = self._script.choose(len(self._pending))
                wi = self._favourite if self._favourite in idle else idle[self._script.choose(len(idle))]
                if wi == self._favourite and self._workers[wi]["jobs"] >= 1:
                    POOL_STATS["skewed-load"] += 1
            else:
                ti = self._script.choose(len(self._pending))
                wi = idle[self._script.choose(len(idle))]
            if ti != 0:
                POOL_STATS["reorder-dispatch"] += 1
            tid, func, args, kwds = self._pending.pop(ti)
            w = self._workers[wi]
            w["conn"].send((tid, func, args, kwds))  # pickles here: the transport boundary
            w["task"] = tid
            w["jobs"] += 1
            self._dispatch_order.append(tid)
        elif kind == "complete":
            wi = busy[0] if mode == "fifo" else busy[self._script.choose(len(busy))]
            w = self._workers[wi]
            try:
                tid, ok, value = w["conn"].recv()
            except EOFError:
                tid, ok, value = w["task"], False, (RuntimeError("worker died"), "")
            w["task"] = None
            self._completed.append((tid, ok, value, wi))
        else:
            ci = deliverable[0] if mode == "fifo" else deliverable[self._script.choose(len(deliverable))]
            tid, ok, value, _wi = self._completed.pop(ci)
            if any(t < tid and not r._done for t, r in self._results.items()):
                POOL_STATS["reorder-delivery"] += 1
            self._delivery_order.append(tid)
            self._results[tid]._set(ok, value)
        return True

    def _poll_point(self, extra=0):
        """ready() / timed wait(): 0..2(+extra) scheduling steps happen 'meanwhile' (none in fifo mode for ready())"""
        if self._terminated:
            return
        if self._mode == "fifo":
            n = extra
        else:
            n = self._script.choose(3 + extra)
        POOL_STATS["poll-points"] = POOL_STATS.get("poll-points", 0) + 1
        for _ in range(n):
            if not self._step():
                break

    def _run_until(self, cond):
        guard = 0
        while not cond():
            if self._terminated:
                raise RuntimeError("pool terminated while waiting")
            if not self._step():
                raise RuntimeError("SimPool deadlock: waiting for a result that nothing can produce")
            guard += 1
            if guard > 10_000_000:
                raise RuntimeError("SimPool: step limit")


import concurrent.futures as _cf


class SimFuture(_cf.Future):
    """A real concurrent.futures.Future that is resolved by the simulated dispatcher; blocking calls drive it."""

    def __init__(self, pool):
        super().__init__()
        self._sim_pool = pool
        self.set_running_or_notify_cancel()

    def _drive(self):
        self._sim_pool._run_until(lambda: super(SimFuture, self).done())

    def result(self, timeout=None):
        if timeout is None:
            self._drive()
        else:
            self._sim_pool._poll_point(extra=2)
            if not super().done():
                raise _cf.TimeoutError()
        return super().result(0)

    def exception(self, timeout=None):
        if timeout is None:
            self._drive()
        else:
            self._sim_pool._poll_point(extra=2)
            if not super().done():
                raise _cf.TimeoutError()
        return super().exception(0)

    def done(self):
        self._sim_pool._poll_point()
        return super().done()


class SimExecutor:
    """concurrent.futures.{Process,Thread}PoolExecutor on top of SimPool"""

    def __init__(self, max_workers=None, *a, **kw):
        self._pool = SimPool(processes=max_workers or 2)

    def submit(self, fn, *args, **kwargs):
        fut = SimFuture(self._pool)

        def ok(value):
            fut.set_result(value)

        def err(exc):
            fut.set_exception(exc)

        self._pool.apply_async(fn, args, kwargs, callback=ok, error_callback=err)
        return fut

    def map(self, fn, *iterables, timeout=None, chunksize=1):
        futs = [self.submit(fn, *a) for a in zip(*iterables)]

        def gen():
            for f in futs:
                yield f.result()

        return gen()

    def shutdown(self, wait=True, cancel_futures=False):
        if self._pool._terminated:
            return
        self._pool.close()
        self._pool.join()

    def __enter__(self):
        return self

    def __exit__(self, *exc):
        self.shutdown()


def _sim_as_completed(fs, timeout=None):
    fs = list(fs)
    sim = [f for f in fs if isinstance(f, SimFuture)]
    if len(sim) != len(fs):
        yield from _REAL_AS_COMPLETED(fs, timeout)
        return
    yielded = set()
    while len(yielded) < len(fs):
        pending = [f for f in fs if id(f) not in yielded]
        ready = [f for f in pending if _cf.Future.done(f)]
        if not ready:
            pool = pending[0]._sim_pool
            pool._run_until(lambda: any(_cf.Future.done(f) for f in pending))
            ready = [f for f in pending if _cf.Future.done(f)]
        # completion order = delivery order of the dispatcher
        order = {t: i for i, t in enumerate(ready[0]._sim_pool._delivery_order)}
        for f in ready:
            yielded.add(id(f))
            yield f


def _sim_wait(fs, timeout=None, return_when="ALL_COMPLETED"):
    fs = list(fs)
    if not all(isinstance(f, SimFuture) for f in fs):
        return _REAL_WAIT(fs, timeout, return_when)
    if fs:
        pool = fs[0]._sim_pool
        if return_when == "ALL_COMPLETED":
            pool._run_until(lambda: all(_cf.Future.done(f) for f in fs))
        else:
            pool._run_until(lambda: any(_cf.Future.done(f) for f in fs))
    done = {f for f in fs if _cf.Future.done(f)}
    return _cf._base.DoneAndNotDoneFutures(done, set(fs) - done)


_REAL_AS_COMPLETED = _cf.as_completed
_REAL_WAIT = _cf.wait


def install_pool():
    """Put every pool constructor the code might reach under the dispatcher."""
    import multiprocessing
    import multiprocessing.pool
    import concurrent.futures

    multiprocessing.Pool = SimPool
    multiprocessing.pool.Pool = SimPool
    try:
        multiprocessing.get_context().__class__.Pool = lambda self, *a, **kw: SimPool(*a, **kw)
    except Exception:
        pass
    concurrent.futures.ProcessPoolExecutor = SimExecutor
    concurrent.futures.ThreadPoolExecutor = SimExecutor
    concurrent.futures.as_completed = _sim_as_completed
    concurrent.futures.wait = _sim_wait
    try:
        import whatshap.polyphase.algorithm as alg

        if hasattr(alg, "Pool"):
            alg.Pool = SimPool
    except ImportError:
        pass
    for name, mod in list(sys.modules.items()):
        if name.startswith("whatshap.") and mod is not None:
            for attr in ("Pool", "ProcessPoolExecutor", "ThreadPoolExecutor"):
                if hasattr(mod, attr) and getattr(mod, attr) not in (SimPool, SimExecutor):
                    cur = getattr(mod, attr)
                    if getattr(cur, "__module__", "").startswith(("multiprocessing", "concurrent")):
                        setattr(mod, attr, SimPool if attr == "Pool" else SimExecutor)
            if getattr(mod, "as_completed", None) is _REAL_AS_COMPLETED:
                mod.as_completed = _sim_as_completed
            if getattr(mod, "wait", None) is _REAL_WAIT:
                mod.wait = _sim_wait


# ------------------------------------------------------------------------------------------------


class SimClock:
    """
    time.time() replacement driven by a script of (kind, magnitude) steps:
      tick   small forward step (µs..s)
      stall  no movement (zero elapsed)
      fwd    large forward step (hours..days)
      back   backward step
    """

    KINDS = ("tick", "stall", "fwd", "back")

    def __init__(self, script, seed, enabled):
        self.t = 1_700_000_000.0
        self.script = list(script)
        self.i = 0
        self.rng = random.Random("clock:%s" % seed)
        self.enabled = set(enabled)
        self.fired = {k: 0 for k in self.KINDS}
        self.covered = 0.0
        self.reads = 0

    def _next(self):
        if self.i < len(self.script):
            v = self.script[self.i]
            self.i += 1
            return v
        return self.rng.randrange(1 << 30)

    def time(self):
        self.reads += 1
        v = self._next()
        kind = "tick"
        r = v % 100
        if "stall" in self.enabled and r < 15:
            kind = "stall"
        elif "fwd" in self.enabled and r < 25:
            kind = "fwd"
        elif "back" in self.enabled and r < 35:
            kind = "back"
        mag = (v >> 8) % 1000
        if kind == "tick":
            d = 1e-6 * (1 + mag * mag)
        elif kind == "stall":
            d = 0.0
        elif kind == "fwd":
            d = 3600.0 * (1 + mag)
        else:
            d = -60.0 * (1 + mag)
        self.fired[kind] += 1
        if d > 0:
            self.covered += d
        self.t += d
        return self.t

    # modules sometimes use these as well
    def monotonic(self):
        return self.time()

    def perf_counter(self):
        return self.time()

    def time_ns(self):
        return int(self.time() * 1e9)

    def monotonic_ns(self):
        return int(self.time() * 1e9)

    def perf_counter_ns(self):
        return int(self.time() * 1e9)

    def sleep(self, s):
        self.t += max(0.0, s)
        self.covered += max(0.0, s)

    def __getattr__(self, name):
        import time as _t

        return getattr(_t, name)


import time as _real_time

_REAL_CLOCK_FUNCS = {
    _real_time.time: "time", _real_time.monotonic: "monotonic", _real_time.perf_counter: "perf_counter",
    _real_time.time_ns: "time_ns", _real_time.monotonic_ns: "monotonic_ns", _real_time.perf_counter_ns: "perf_counter_ns",
}


def install_clock(clock):
    """
    Every way whatshap code can read a clock goes to the simulated one: the `time` attribute of whatshap.timer
    (the seam the code has), any other whatshap module that imported the time module, and any name in a whatshap
    module that was bound to a clock function with `from time import ...`.
    """
    import datetime as _dt
    import types
    import whatshap.timer as T

    class SimDateTime(_dt.datetime):
        @classmethod
        def now(cls, tz=None):
            return cls.fromtimestamp(clock.time(), tz)

        @classmethod
        def utcnow(cls):
            return cls.utcfromtimestamp(clock.time())

        @classmethod
        def today(cls):
            return cls.fromtimestamp(clock.time())

    class SimDate(_dt.date):
        @classmethod
        def today(cls):
            return cls.fromtimestamp(clock.time())

    dt_shim = types.ModuleType("datetime")
    dt_shim.__dict__.update({k: v for k, v in vars(_dt).items() if not k.startswith("__")})
    dt_shim.datetime = SimDateTime
    dt_shim.date = SimDate

    T.time = clock
    for name, mod in list(sys.modules.items()):
        if not (name == "whatshap" or name.startswith("whatshap.")) or mod is None:
            continue
        for attr, val in list(vars(mod).items()):
            if val is _real_time:
                setattr(mod, attr, clock)
            elif val is _dt:
                setattr(mod, attr, dt_shim)
            elif val is _dt.datetime:
                setattr(mod, attr, SimDateTime)
            elif val is _dt.date:
                setattr(mod, attr, SimDate)
            else:
                try:
                    kind = _REAL_CLOCK_FUNCS.get(val)
                except TypeError:
                    kind = None
                if kind:
                    setattr(mod, attr, getattr(clock, kind))
