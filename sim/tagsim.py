"""
C17 — tag-pipeline machine (DESIGN §4 C17).

History over two stores (phase tags in the VCF; HP/PS/PC tags on reads):

   phase(L0, tag)            -> V*   (the phasing that tags the reads)
   haplotag(V*, B)           -> B'   (options drawn)
   [haplotag(V*, B') again   -> B'']
   unphase (all / seeded subset of calls / whatshap unphase) -> V°
   haplotagphase(V°, B')     -> W

Oracle: T1 every call phased in V° decodes identically from W; T2 every call phased in W and not in
V° has the haplotype order and phase-set id of V*, unless one of its covering reads overlaps two
different phase sets of V* (the proviso of the statement, computed from the BAM the harness wrote
and from V*, not from whatshap's later output).
"""

import copy
import hashlib
import os
import traceback

from . import world as W
from .harness import violation
from .histsim import decode_with_whatshap, raw_records


def _pick(salt, chrom, sample, pos, rate):
    h = hashlib.sha256(("%s|%s|%s|%d" % (salt, chrom, sample, pos)).encode()).digest()
    return (h[0] * 256 + h[1]) % 1000 < int(rate * 1000)


def gen_tags_case(rng, tier):
    kinds = rng.choice([["snv"], ["snv"], ["snv"], ["snv", "snv", "snv", "ins", "del"], ["snv", "snv", "mnp"]])
    w = W.gen_core(rng, n_chroms=rng.choice([1, 1, 2]), n_samples=rng.choice([1, 1, 2]), kinds=kinds,
                   homopolymers=rng.choice([0, 0, 0, 2]), het_rate=rng.choice([0.7, 0.9]), first_base_variant=0.1, pos_coincidence=0.5)
    if len(w["samples"]) > 1 and rng.random() < 0.25:
        # uncalled genotypes (./.) of one sample at a few sites; the other sample may well be phased there
        cores = [r for r in w["records"] if r.get("core")]
        s_missing = rng.choice(w["samples"])
        for r in cores:
            if rng.random() < 0.2:
                r["calls"][s_missing][0] = "./."
    depth = rng.choice([3, 4, 6, 10, 14, 20, 30])
    W.gen_library(rng, w, "L0", truth="main", depth=depth,
                  read_len=rng.choice([(100, 300), (150, 600), (300, 1200)]), cuts=rng.choice([0, 0, 1, 2]))
    samples = w["samples"]
    chroms = [c["name"] for c in w["chroms"]]
    bx_cutoff = None
    if rng.random() < 0.3:
        # linked reads: a molecule = 2-3 reads of one haplotype that start within cutoff/2 of each other and share a
        # barcode; the same barcode is reused by other molecules (any haplotype) that lie more than the cutoff away,
        # which haplotag documents as different read clouds
        bx_cutoff = rng.choice([120, 200, 350])
        reads = sorted(w["libs"]["L0"]["reads"], key=lambda r: (r["sample"], r["chrom"], r["start"], r["name"]))
        used = set()
        barcodes = {}  # (sample, chrom) -> list of [barcode, last start of its latest molecule]
        nbar = 0
        # barcodes come from one whitelist: two samples' libraries use the same strings (read clouds are per sample all the same)
        shared_whitelist = len(w["samples"]) > 1 and rng.random() < 0.5
        per_sample = {}
        for i, r in enumerate(reads):
            if i in used or rng.random() < 0.4:
                continue
            mol = [i]
            for j in range(i + 1, len(reads)):
                q = reads[j]
                if (q["sample"], q["chrom"]) != (r["sample"], r["chrom"]) or q["start"] - r["start"] > bx_cutoff // 2:
                    break
                if j not in used and q["hap"] == r["hap"] and len(mol) < 3:
                    mol.append(j)
            lo = reads[mol[0]]["start"]
            hi = max(reads[k]["start"] for k in mol)
            key = (r["sample"], r["chrom"])
            bc = None
            for ent in barcodes.setdefault(key, []):
                if lo - ent[1] > bx_cutoff + 20 and rng.random() < 0.7:
                    bc = ent
                    break
            if bc is None:
                nbar += 1
                num = nbar
                if shared_whitelist:
                    num = per_sample[key] = per_sample.get(key, 0) + 1
                bc = ["BX%04d-1" % num, hi]
                barcodes[key].append(bc)
            bc[1] = hi
            for k in mol:
                used.add(k)
                reads[k]["tags"] = [["BX", bc[0]]]
    ops = [{"op": "phase", "lib": "L0", "tag": rng.choice(["PS", "PS", "HP"])}]
    if rng.random() < 0.25:
        # the phased VCF that tags the reads is itself only partially phased
        ops[0]["thin"] = {"salt": rng.randrange(10**6), "rate": rng.choice([0.2, 0.4])}
    if rng.random() < 0.4:
        ops[0].update(mode="render", nsets=rng.choice([1, 2, 3, 5]), salt=rng.randrange(10**6), ps_ids=rng.choice(["first", "random", "random", "random", "none", "zero"]))
    hopts = {}
    if rng.random() < 0.15:
        hopts["tag_supplementary"] = True
    if len(samples) == 1 and rng.random() < 0.2:
        hopts["ignore_read_groups"] = True
    if rng.random() < 0.15:
        c = rng.choice(w["chroms"])
        a = rng.randrange(1, len(c["seq"]) // 2)
        hopts["regions"] = ["%s:%d-%d" % (c["name"], a, a + len(c["seq"]) // 2)]
    if rng.random() < 0.15:
        hopts["noref"] = True
    if rng.random() < 0.2:
        hopts["ignore_linked_read"] = True
    if bx_cutoff is not None:
        hopts["linked_read_distance_cutoff"] = bx_cutoff
    if len(samples) > 1 and rng.random() < 0.25:
        hopts["given_samples"] = [rng.choice(samples)]
    if rng.random() < 0.25:
        # the BAM was already haplotagged earlier, with a different (equally consistent) phasing
        ops.append({"op": "pretag", "nsets": rng.choice([1, 2, 4]), "salt": rng.randrange(10**6), "ps_ids": "random"})
    ops.append({"op": "haplotag", "opts": hopts})
    if rng.random() < 0.3:
        ops.append({"op": "haplotag_again"})
    mode = rng.choice(["all", "all", "subset", "subset", "subset", "whatshap-unphase"])
    u = {"op": "unphase", "mode": mode}
    if mode == "subset":
        u["salt"] = rng.randrange(10**6)
        u["rate"] = rng.choice([0.2, 0.5, 0.6, 0.8])
    ops.append(u)
    popts = {}
    if len(chroms) > 1 and rng.random() < 0.2:
        popts["chromosomes"] = [rng.choice(chroms)]
    if rng.random() < 0.15:
        popts["mav"] = False
    if rng.random() < 0.1:
        popts["only_indels"] = True
    if len(samples) == 1 and rng.random() < 0.15:
        popts["ignore_read_groups"] = True
    ops.append({"op": "haplotagphase", "opts": popts})
    shared_names = False
    if len(chroms) > 1 and rng.random() < 0.2:
        # read names are reused from chromosome to chromosome (per-chromosome numbering, or templates whose mates map to
        # different chromosomes): a read's tags belong to the alignment record, not to its name
        shared_names = True
        serial = {}
        for r in w["libs"]["L0"]["reads"]:
            k = (r["sample"], r["chrom"])
            serial[k] = serial.get(k, 0) + 1
            r["name"] = "L0_%s_%d" % (r["sample"], serial[k])
    return {"machine": "tags", "world": W.clean_world(w), "ops": ops,
            "knobs": {"depth": depth, "kinds": kinds, "bx_cutoff": bx_cutoff, "shared_names": shared_names}}


def render_vstar(world, path, tag, nsets, salt, ps_ids):
    """
    V* written by the harness instead of by `whatshap phase`: the true haplotypes, cut into `nsets` contiguous
    phase sets per (chromosome, sample), each with a seeded orientation and (optionally) a phase-set id that is
    unrelated to any position.  Any such file is 'a phased VCF' consistent with the error-free reads.
    """
    import copy as _copy

    w = _copy.deepcopy(world)
    cores = [r for r in w["records"] if r.get("core")]
    truth = w["truth"]["main"]
    groups = {}
    for k, r in enumerate(cores):
        for s in w["samples"]:
            al = (truth[s][0][k], truth[s][1][k])
            if al[0] != al[1] and r["calls"][s][0] in ("0/1", "1/0"):
                groups.setdefault((r["chrom"], s), []).append((k, r, al))
    for (ci, s), lst in sorted(groups.items()):
        n = max(1, min(nsets, len(lst)))
        for j, (k, r, al) in enumerate(lst):
            g = j * n // len(lst)
            first = [x for i, x in enumerate(lst) if i * n // len(lst) == g][0][1]["pos"] + 1
            h = hashlib.sha256(("%s|%d|%s|%d" % (salt, ci, s, g)).encode()).digest()
            ps = first if ps_ids == "first" else 1 + (h[2] * 65536 + h[3] * 256 + h[4]) % 900000
            if h[0] & 1:
                al = (al[1], al[0])
            if tag == "PS" and ps_ids == "none":
                # phased by the '|' alone: no PS key in the record (the reader reports phase set 0)
                r["calls"][s][0] = "%d|%d" % al
                continue
            if ps_ids == "zero":
                ps = 0
            key = "PS" if tag == "PS" else "HP"
            if key not in r["format"]:
                r["format"].append(key)
                for s2 in w["samples"]:
                    r["calls"][s2].append(".")
            idx = r["format"].index(key)
            if tag == "PS":
                r["calls"][s][0] = "%d|%d" % al
                r["calls"][s][idx] = str(ps)
            else:
                r["calls"][s][0] = "0/1"
                r["calls"][s][idx] = ",".join("%d-%d" % (ps, al.index(a) + 1) for a in (0, 1))
    W.write_vcf(w, path)


def rewrite_unphased(src, dst, choose):
    """harness-side partial unphase of a whatshap-written VCF: choose(chrom, sample, pos0) -> bool"""
    with open(src) as f, open(dst, "w") as out:
        samples = []
        for line in f:
            if line.startswith("##"):
                out.write(line)
                continue
            cols = line.rstrip("\n").split("\t")
            if line.startswith("#CHROM"):
                samples = cols[9:]
                out.write(line)
                continue
            if len(cols) < 10:
                out.write(line)
                continue
            fmt = cols[8].split(":")
            for j, s in enumerate(samples):
                if not choose(cols[0], s, int(cols[1]) - 1):
                    continue
                vals = cols[9 + j].split(":")
                vals += ["."] * (len(fmt) - len(vals))
                gi = fmt.index("GT") if "GT" in fmt else None
                if gi is not None and "|" in vals[gi]:
                    al = vals[gi].split("|")
                    if all(a != "." for a in al):
                        al = sorted(al, key=int)
                    vals[gi] = "/".join(al)
                for t in ("PS", "HP", "PQ"):
                    if t in fmt:
                        vals[fmt.index(t)] = "."
                cols[9 + j] = ":".join(vals)
            out.write("\t".join(cols) + "\n")


class TagsRun:
    def __init__(self, case, log, stats, workdir):
        self.case = case
        self.world = copy.deepcopy(case["world"])
        self.log = log
        self.stats = stats
        self.dir = workdir
        self.viol = []

    def add(self, cls, message, signature):
        self.viol.append(("C17", violation(cls, message, signature)))
        self.log.add("violation", [cls, signature])

    def guarded(self, what, fn):
        from whatshap.cli import CommandLineError

        from .harness import call_in_fork, ChildRaised

        try:
            # every subcommand of the pipeline is a process of its own, as on the command line
            call_in_fork(fn)
            return True
        except ChildRaised as e:
            if e.is_command_line_error:
                self.stats.inc("op_rejected")
                self.log.add("rejected", e.message.replace(self.dir, "<RUN>")[:80])
                return False
            self.stats.inc("pipeline_step_raised")
            self.stats.inc("pipeline_step_raised:%s:%s" % (what.split("(")[0].split()[-1], e.type_name))
            self.log.add("raised", e.type_name)
            return False
        except CommandLineError as e:
            self.stats.inc("op_rejected")
            self.log.add("rejected", str(e).replace(self.dir, "<RUN>")[:80])
            return False
        except Exception as e:
            # A subcommand raising on this input produces no output; C17 speaks about the variants haplotagphase phases,
            # not about whether every step runs. (On the unchanged tree haplotagphase raises IndexError when a tagged read
            # covers an uncalled ./. genotype.) The pipeline ends here, counted, not alarmed.
            tname = getattr(e, "type_name", type(e).__name__)
            self.stats.inc("pipeline_step_raised")
            self.stats.inc("pipeline_step_raised:%s:%s" % (what.split("(")[0].split()[-1], tname))
            self.log.add("raised", tname)
            return False

    def run(self):
        import pysam
        from whatshap.cli.phase import run_whatshap
        from whatshap.cli.haplotag import run_haplotag
        from whatshap.cli.haplotagphase import run_haplotagphase
        from whatshap.cli.unphase import run_unphase

        d = self.dir
        w = self.world
        ref = os.path.join(d, "ref.fa")
        W.write_reference(w, ref)
        W.write_vcf(w, os.path.join(d, "in.vcf"))
        bam = os.path.join(d, "L0.bam")
        W.write_bam(w, "L0", bam)
        ops = {o["op"]: o for o in self.case["ops"]}
        if not all(k in ops for k in ("phase", "haplotag", "unphase", "haplotagphase")):
            self.stats.inc("skipped_ops")
            return
        # read extents per sample as aligned (for the proviso)
        extents = {}
        clouds = {}
        with pysam.AlignmentFile(bam) as af:
            for a in af:
                s = a.get_tag("RG")[3:]
                bx = a.get_tag("BX") if a.has_tag("BX") else None
                extents.setdefault((a.reference_name, s), []).append((a.reference_start, a.reference_end, a.query_name, bx))
                if bx is not None:
                    clouds.setdefault((a.reference_name, s, bx), []).append((a.reference_start, a.reference_end))
        self.clouds = clouds
        self.linked = not ops["haplotag"].get("opts", {}).get("ignore_linked_read", False)
        self.cutoff = ops["haplotag"].get("opts", {}).get("linked_read_distance_cutoff", 50000)

        # 1. phase -> V*
        vstar = os.path.join(d, "vstar.vcf")
        tag = ops["phase"]["tag"]
        if ops["phase"].get("mode") == "render":
            render_vstar(w, vstar, tag, ops["phase"].get("nsets", 1), ops["phase"].get("salt", 0), ops["phase"].get("ps_ids", "first"))
            self.stats.inc("vstar_rendered")
        elif not self.guarded("phase(L0,%s)" % tag, lambda: run_whatshap(
                phase_input_files=[bam], variant_file=os.path.join(d, "in.vcf"), output=vstar, reference=ref,
                tag=tag, write_command_line_header=False)):
            return
        thin = ops["phase"].get("thin")
        if thin:
            full = os.path.join(d, "vstar_full.vcf")
            os.rename(vstar, full)
            rewrite_unphased(full, vstar, lambda c, s, p: _pick(thin["salt"], c, s, p, thin["rate"]))
            self.stats.inc("vstar_partially_phased")
        try:
            dstar = decode_with_whatshap(vstar)
        except Exception as e:
            self.add("pipeline-crashed", "decoding V* raised %s: %s" % (type(e).__name__, e), "pipeline-crashed:decode-vstar:%s" % type(e).__name__)
            return
        self.log.add("vstar", sorted((list(k), [v[0], list(v[1])]) for k, v in dstar.items()))
        if not dstar:
            self.stats.inc("vstar_empty")
            return
        vgz = W.bgzip_index(vstar, os.path.join(d, "vstar.vcf.gz"))

        # 2. haplotag -> B'
        hopts = dict(ops["haplotag"].get("opts", {}))
        noref = hopts.pop("noref", False)
        tagged = os.path.join(d, "tagged.bam")
        src_bam = bam
        if "pretag" in ops:
            pre = ops["pretag"]
            vprime = os.path.join(d, "vprime.vcf")
            render_vstar(w, vprime, "PS", pre.get("nsets", 1), pre.get("salt", 1), pre.get("ps_ids", "random"))
            vpgz = W.bgzip_index(vprime, os.path.join(d, "vprime.vcf.gz"))
            pretagged = os.path.join(d, "pretagged.bam")
            if not self.guarded("haplotag(V',B) [earlier tagging]", lambda: run_haplotag(
                    variant_file=vpgz, alignment_file=bam, output=pretagged, reference=ref)):
                return
            pysam.index(pretagged)
            src_bam = pretagged
            self.stats.inc("pretagged")
        if not self.guarded("haplotag(V*,B)", lambda: run_haplotag(
                variant_file=vgz, alignment_file=src_bam, output=tagged, reference=False if noref else ref, **hopts)):
            return
        pysam.index(tagged)
        for k in hopts:
            self.stats.inc("haplotag_opt_" + k)
        if any(r.get("tags") for r in w["libs"]["L0"]["reads"]):
            self.stats.inc("pipelines_with_linked_reads")
        current_bam = tagged
        tags1 = self.read_tags(tagged)
        self.log.add("tags", sorted(tags1.items()))
        if "haplotag_again" in ops:
            tagged2 = os.path.join(d, "tagged2.bam")
            if not self.guarded("haplotag(V*,B') again", lambda: run_haplotag(
                    variant_file=vgz, alignment_file=tagged, output=tagged2, reference=False if noref else ref, **hopts)):
                return
            pysam.index(tagged2)
            tags2 = self.read_tags(tagged2)
            self.stats.inc("retagged")
            multi_set_cloud = False
            if self.linked:
                for (cc, ss, bx), spans in self.clouds.items():
                    ids = {ps for (c3, s3, q), (ps, al) in dstar.items() if c3 == cc and s3 == ss and any(x <= q < y for (x, y) in spans)}
                    if len(ids) > 1:
                        multi_set_cloud = True
                        break
            if multi_set_cloud:
                # (until fix 489f1fa the tie-break of such a cloud ran over a set of Read objects hashed by address and
                # the two runs could differ; they are compared again now)
                self.stats.inc("retag_with_multi_set_cloud")
            if tags1 != tags2:
                k = sorted(set(tags1) | set(tags2))
                dk = [x for x in k if tags1.get(x) != tags2.get(x)][0]
                self.add("retag-differs", "haplotagging the tagged BAM again changed the tags of read %s from %r to %r" % (dk, tags1.get(dk), tags2.get(dk)), "retag-differs")
                return
            current_bam = tagged2

        # 3. unphase (all / subset) -> V°
        u = ops["unphase"]
        vo = os.path.join(d, "vo.vcf")
        if u["mode"] == "whatshap-unphase":
            def f():
                with open(vo, "w") as out:
                    run_unphase(vstar, out)
            if not self.guarded("unphase(V*)", f):
                return
        elif u["mode"] == "all":
            rewrite_unphased(vstar, vo, lambda c, s, p: True)
        else:
            rewrite_unphased(vstar, vo, lambda c, s, p: _pick(u["salt"], c, s, p, u["rate"]))
        try:
            do = decode_with_whatshap(vo)
        except Exception as e:
            raise RuntimeError("harness: V° not decodable: %s" % e)
        self.stats.inc("unphase_mode_" + u["mode"])

        # 4. haplotagphase -> W
        popts = dict(ops["haplotagphase"].get("opts", {}))
        wout = os.path.join(d, "w.vcf")
        if not self.guarded("haplotagphase(V°,B')", lambda: run_haplotagphase(
                variant_file=vo, alignment_file=current_bam, output=wout, reference=ref,
                write_command_line_header=False, **popts)):
            return
        self.stats.inc("op_pipeline")
        for k in popts:
            self.stats.inc("haplotagphase_opt_" + k)
        try:
            dw = decode_with_whatshap(wout)
        except Exception as e:
            tb = traceback.format_exc()
            site = [l for l in tb.strip().splitlines() if l.strip().startswith("File")][-1].split(", in ")[-1]
            self.add("w-undecodable", "the output of haplotagphase cannot be decoded: %s: %s (in %s)" % (type(e).__name__, e, site),
                     "w-undecodable:%s" % type(e).__name__)
            return
        self.log.add("w", sorted((list(k), [v[0], list(v[1])]) for k, v in dw.items()))

        self.core_index = {}
        kk = 0
        for r in w["records"]:
            if r.get("core"):
                self.core_index[(w["chroms"][r["chrom"]]["name"], r["pos"])] = kk
                kk += 1
        # T1
        for k3, st in sorted(do.items()):
            self.stats.inc("t1_checked")
            got = dw.get(k3)
            if got != st:
                self.add("altered-phased-call",
                         "%s:%d sample %s was phased in the input of haplotagphase as %r and is %r in its output" % (k3[0], k3[2] + 1, k3[1], st, got),
                         "altered-phased-call:" + ("lost" if got is None else "set" if got[1] == st[1] else "alleles"))
                return
        # T2
        sets_by_cs = {}
        for (c, s, p), (ps, al) in dstar.items():
            sets_by_cs.setdefault((c, s), []).append((p, ps))
        new = 0
        for k3, got in sorted(dw.items()):
            if k3 in do:
                continue
            new += 1
            c, s, p = k3
            # proviso: a covering read overlaps two different phase sets of V*
            excluded = False
            for (a, b, name, bx) in extents.get((c, s), []):
                if a <= p < b:
                    # haplotag assigns a read cloud (reads with the same barcode whose starts lie within the cut-off) as
                    # one unit: the proviso "no read overlaps two phase sets" is applied to the cloud the read belongs to
                    spans = [(a, b)]
                    if bx is not None and self.linked:
                        spans = [(x, y) for (x, y) in self.clouds.get((c, s, bx), []) if abs(x - a) <= 2 * self.cutoff + 50]
                    ids = {ps for (q, ps) in sets_by_cs.get((c, s), []) if any(x <= q < y for (x, y) in spans)}
                    if len(ids) > 1:
                        excluded = True
                        break
            if excluded:
                self.stats.inc("t2_excluded_by_proviso")
                continue
            want = dstar.get(k3)
            # the phase set of the reads that cover it: tagged reads can only carry phase-set ids of V*
            vstar_ids = {ps for (q, ps) in sets_by_cs.get((c, s), [])}
            if got[0] not in vstar_ids:
                self.add("foreign-phase-set",
                         "%s:%d sample %s: haplotagphase put it into phase set %r, but the phased VCF that tagged the reads has only the sets %s on this chromosome" % (
                             c, p + 1, s, got[0], sorted(vstar_ids)), "foreign-phase-set")
                return
            if want is None:
                # phased now although V* had it unphased: there is no order in V* to compare with, but the reads are
                # error-free copies of the true haplotypes and V* is consistent with them, so its set fixes the order
                self.stats.inc("t2_not_in_vstar")
                kcore = self.core_index.get((c, p))
                if kcore is not None:
                    truth = (w["truth"]["main"][s][0][kcore], w["truth"]["main"][s][1][kcore])
                    orient = set()
                    for (cc, ss, q), (ps, al) in dstar.items():
                        if cc == c and ss == s and ps == got[0]:
                            kq = self.core_index.get((cc, q))
                            if kq is not None:
                                tq = (w["truth"]["main"][s][0][kq], w["truth"]["main"][s][1][kq])
                                orient.add("same" if tuple(al) == tq else "flip" if tuple(al) == (tq[1], tq[0]) else "other")
                    if orient == {"same"} or orient == {"flip"}:
                        exp = truth if orient == {"same"} else (truth[1], truth[0])
                        self.stats.inc("t2b_checked")
                        if tuple(got[1]) != exp:
                            self.add("reproduced-wrongly",
                                     "%s:%d sample %s: unphased in the VCF that tagged the reads; haplotagphase phased it as %r in set %d, the error-free reads of that set carry %r" % (
                                         c, p + 1, s, got, got[0], exp), "reproduced-wrongly:vs-reads")
                            return
                continue
            self.stats.inc("t2_checked")
            if got != want:
                self.add("reproduced-wrongly",
                         "%s:%d sample %s: haplotagphase phased it as %r, the phasing that tagged the reads has %r" % (c, p + 1, s, got, want),
                         "reproduced-wrongly:" + ("set" if got[1] == want[1] else "alleles" if got[0] == want[0] else "both"))
                return
        left = sum(1 for k3 in dstar if k3 not in dw)
        self.stats.inc("newly_phased", new)
        self.stats.inc("left_unphased", left)
        if new:
            self.stats.inc("pipelines_with_new_phase")

    def read_tags(self, path):
        import pysam

        out = {}
        with pysam.AlignmentFile(path) as af:
            for a in af:
                t = []
                for k in ("HP", "PS", "PC"):
                    t.append(a.get_tag(k) if a.has_tag(k) else None)
                out["%s|%s|%d|%d" % (a.query_name, a.reference_name, a.flag, a.reference_start)] = t
        return out
