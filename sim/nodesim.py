"""
C16 — the runtime simulator (DESIGN §4 C16).

One case = one scenario list executed by K nodes.  A node is a fresh interpreter with a drawn hash
seed; per (node, scenario) are drawn: polyphase worker count, compression thread count, SimPool
mode + schedule script, SimClock script + enabled clock faults, dirty-directory repetition.
Node 0 is the fault-free reference (hash seed 0, one worker, fifo schedule, monotone clock, clean
directory); node 1 is its twin (identical configuration) and tells nondeterminism that no seam
controls apart from what a fault provokes.  Oracle: every node's normalised outputs and exit
status equal node 0's, scenario by scenario.
"""

import copy
import hashlib
import json
import os
import shutil
import subprocess
import sys
import tempfile

from . import world as W
from .harness import Engine, EventLog, Counter, violation, digest, VERIF

PY = "/venv/bin/python"
POOL_MODES = ["fifo", "random", "random", "skewed", "stalled"]
CLOCK_FAULTS = ["stall", "fwd", "back"]


def load_catalogue():
    p = os.path.join(VERIF, "sim", "catalogue.json")
    with open(p) as f:
        return json.load(f)


# ------------------------------------------------------------------------------------------------
# generated worlds with ties and collisions


def phased_copy(world, truth="main", tag="PS", samples=None, unsorted_ps=False, nsets=1, thin=None):
    """the world's VCF with the truth written as phase (nsets contiguous phase sets per chromosome and sample)"""
    w = copy.deepcopy(world)
    cores = [r for r in w["records"] if r.get("core")]
    first = {}
    nhet = {}
    for k, r in enumerate(cores):
        for s in (samples or w["samples"]):
            if len(set(h[k] for h in w["truth"][truth][s])) > 1:
                nhet[(r["chrom"], s)] = nhet.get((r["chrom"], s), 0) + 1
    seen = {}
    for k, r in enumerate(cores):
        for s in (samples or w["samples"]):
            haps = w["truth"][truth][s]
            al = [h[k] for h in haps]
            if len(set(al)) < 2:
                continue
            j = seen.get((r["chrom"], s), 0)
            seen[(r["chrom"], s)] = j + 1
            if thin and int(hashlib.sha256(("%s|%d|%s|%d" % (thin[0], r["chrom"], s, r["pos"])).encode()).hexdigest()[:6], 16) % 100 < thin[1]:
                continue  # this call stays unphased: a partial pre-phasing
            g = j * max(1, nsets) // max(1, nhet[(r["chrom"], s)])
            ps = first.setdefault((r["chrom"], s, g), r["pos"] + 1)
            if "PS" not in r["format"]:
                r["format"].append("PS")
                for s2 in w["samples"]:
                    r["calls"][s2].append(".")
            r["calls"][s][0] = "|".join(str(a) for a in al)
            r["calls"][s][r["format"].index("PS")] = str(ps)
    return w


def make_generated(rng, kind):
    """-> scenario dicts sharing one world: {"name","world","files","argv","stdout","expect_exit"}"""
    out = []
    if kind == "haplotag-collide":
        names = rng.choice([["s1", "s2", "s3"], ["NA12878", "NA12891", "NA12892"], ["b", "a", "C", "A0"], ["child", "mother", "father"]])
        n = rng.choice([2, 3, len(names)])
        w = W.gen_core(rng, n_chroms=rng.choice([1, 2]), n_samples=n, sample_names=names, kinds=["snv"], length=rng.choice([600, 1000]))
        W.gen_library(rng, w, "L0", depth=rng.choice([3, 5, 8]), read_len=(150, 500))
        W.add_alt_truth(rng, w, "alt", flip_rate=0.5)
        # the same read names in different read groups
        per = {}
        for r in w["libs"]["L0"]["reads"]:
            k = per.get(r["sample"], 0)
            per[r["sample"]] = k + 1
            r["name"] = "read_%d" % k
        # linked reads: groups of 2-4 reads of a sample share a BX tag (not necessarily the same haplotype: ties and conflicts)
        if rng.random() < 0.6:
            pool = [r for r in w["libs"]["L0"]["reads"] if rng.random() < 0.6]
            rng.shuffle(pool)
            g = 0
            while pool:
                n = rng.choice([2, 2, 3, 4])
                grp, pool = pool[:n], pool[n:]
                for r in grp:
                    r["tags"] = [["BX", "ACGTACGT-%d" % g]]
                g += 1
        files = [{"kind": "ref", "name": "ref.fa"}, {"kind": "bam", "lib": "L0", "name": "reads.bam"},
                 {"kind": "vcfgz", "name": "phased.vcf.gz", "phased": "PS", "nsets": rng.choice([1, 2, 3, 4])}]
        base = {"world": W.clean_world(w), "files": files, "stdout": None, "expect_exit": 0}
        out.append(dict(base, name="gen-haplotag-collide", subcommand="haplotag",
                        argv=["haplotag", "-o", "{out:tagged.bam}", "--output-haplotag-list", "{out:list.tsv}", "--reference", "{W}/ref.fa",
                              "--output-threads", "{othreads}", "{W}/phased.vcf.gz", "{W}/reads.bam"]))
        # 2-4 regions, ascending and disjoint within a chromosome (haplotag rejects regions that make the fetched VCF records unordered)
        regs = []
        for c in w["chroms"]:
            L = len(c["seq"])
            cuts = sorted(rng.sample(range(1, L - 1), 4))
            nreg = rng.choice([1, 2, 2])
            spans = [(cuts[0], cuts[1]), (cuts[2], cuts[3])][:nreg]
            for j, (a, b) in enumerate(spans):
                last = j == len(spans) - 1
                regs += ["--regions", "%s:%d" % (c["name"], a) if last and rng.random() < 0.3 else "%s:%d-%d" % (c["name"], a, b)]
        if len(regs) < 4:
            c = w["chroms"][0]
            regs = ["--regions", "%s:%d-%d" % (c["name"], 1, len(c["seq"]) // 3), "--regions", "%s:%d-%d" % (c["name"], len(c["seq"]) // 2, len(c["seq"]) - 1)]
        out.append(dict(base, name="gen-haplotag-regions", subcommand="haplotag",
                        argv=["haplotag", "-o", "{out:tagged.bam}", "--output-haplotag-list", "{out:list.tsv}", "--reference", "{W}/ref.fa",
                              "--output-threads", "{othreads}"] + regs + ["{W}/phased.vcf.gz", "{W}/reads.bam"]))
        out.append(dict(base, name="gen-haplotag-sample-subset", subcommand="haplotag",
                        argv=["haplotag", "-o", "{out:tagged.bam}", "--output-haplotag-list", "{out:list.tsv}", "--reference", "{W}/ref.fa",
                              "--sample", w["samples"][-1], "--sample", w["samples"][0], "--ignore-linked-read",
                              "--output-threads", "{othreads}", "{W}/phased.vcf.gz", "{W}/reads.bam"]))
        out.append(dict(base, name="gen-haplotag-ignore-rg-samples", subcommand="haplotag",
                        argv=["haplotag", "-o", "{out:tagged.bam}", "--output-haplotag-list", "{out:list.tsv}", "--reference", "{W}/ref.fa",
                              "--ignore-read-groups", "--sample", w["samples"][-1], "--sample", w["samples"][0],
                              "--output-threads", "{othreads}", "{W}/phased.vcf.gz", "{W}/reads.bam"]))
        if len(w["chroms"]) > 1:
            out.append(dict(base, name="gen-stats-indexed-chromosome", subcommand="stats", stdout="text",
                            argv=["stats", "--tsv", "{out:stats.tsv}", "--block-list", "{out:blocks.tsv}", "--chromosome", w["chroms"][-1]["name"],
                                  "--chromosome", w["chroms"][0]["name"], "--sample", w["samples"][0], "{W}/phased.vcf.gz"]))
        out.append(dict(base, name="gen-haplotag-cram", subcommand="haplotag",
                        argv=["haplotag", "-o", "{out:tagged.cram}", "--output-haplotag-list", "{out:list.tsv}", "--reference", "{W}/ref.fa",
                              "--output-threads", "{othreads}", "{W}/phased.vcf.gz", "{W}/reads.bam"]))
        # Two directories holding files of the same names and different content (two samples' working directories): the same
        # command line in each. Whatever a run caches outside its outputs (temporary directory, home) must not leak from one
        # to the other. The plain-text VCF is rejected by haplotag on the present tree (exit 1 on every node).
        files += [{"kind": "vcfgz", "name": "dirA/phased.vcf.gz", "phased": "PS", "nsets": 1},
                  {"kind": "vcfgz", "name": "dirB/phased.vcf.gz", "phased": "PS", "nsets": rng.choice([2, 3]), "truth": "alt"},
                  {"kind": "vcf", "name": "dirA/phased.vcf", "phased": "PS", "nsets": 1},
                  {"kind": "vcf", "name": "dirB/phased.vcf", "phased": "PS", "nsets": rng.choice([2, 3]), "truth": "alt"}]
        for d in ("dirA", "dirB"):
            out.append(dict(base, name="gen-haplotag-sibling-%s" % d, subcommand="haplotag",
                            argv=["haplotag", "-o", "{out:tagged.bam}", "--output-haplotag-list", "{out:list.tsv}", "--reference", "{W}/ref.fa",
                                  "{W}/%s/phased.vcf.gz" % d, "{W}/reads.bam"]))
            out.append(dict(base, name="gen-haplotag-sibling-plain-%s" % d, subcommand="haplotag", expect_exit=1,
                            argv=["haplotag", "-o", "{out:tagged.bam}", "--output-haplotag-list", "{out:list.tsv}", "--reference", "{W}/ref.fa",
                                  "{W}/%s/phased.vcf" % d, "{W}/reads.bam"]))
        out.append(dict(base, name="gen-haplotag-collide-gzlist", subcommand="haplotag",
                        argv=["haplotag", "-o", "{out:tagged.bam}", "--output-haplotag-list", "{out:list.tsv.gz}", "--no-reference",
                              "--tag-supplementary", "--output-threads", "{othreads}", "{W}/phased.vcf.gz", "{W}/reads.bam"]))
    elif kind == "multisample-phase":
        names = rng.choice([["s1", "s2", "s3", "s4"], ["NA12878", "NA12891", "NA12892", "HG002"], ["b", "a", "C", "A0"]])
        w = W.gen_core(rng, n_chroms=rng.choice([1, 2]), n_samples=rng.choice([2, 3, 4]), sample_names=names, length=rng.choice([600, 1500]))
        W.gen_library(rng, w, "L0", depth=rng.choice([3, 6, 12, 25]))
        files = [{"kind": "ref", "name": "ref.fa"}, {"kind": "bam", "lib": "L0", "name": "reads.bam"}, {"kind": "vcf", "name": "in.vcf"},
                 {"kind": "vcf", "name": "truth.vcf", "phased": "PS"}]
        base = {"world": W.clean_world(w), "files": files, "stdout": None, "expect_exit": 0}
        out.append(dict(base, name="gen-phase-multisample", subcommand="phase",
                        argv=["phase", "-o", "{out:phased.vcf}", "--reference", "{W}/ref.fa", "--output-read-list", "{out:reads.tsv}", "{W}/in.vcf", "{W}/reads.bam"]))
        # the same input file named more than once on the command line, next to another one
        W.gen_library(rng, w, "L1", depth=rng.choice([2, 4]))
        files.append({"kind": "bam", "lib": "L1", "name": "more.bam"})
        base = {"world": W.clean_world(w), "files": files, "stdout": None, "expect_exit": 0}
        out[0]["world"] = base["world"]
        out.append(dict(base, name="gen-phase-repeated-inputs", subcommand="phase",
                        argv=["phase", "-o", "{out:phased.vcf}", "--reference", "{W}/ref.fa", "--output-read-list", "{out:reads.tsv}",
                              "{W}/in.vcf", "{W}/reads.bam", "{W}/more.bam", "{W}/reads.bam", "{W}/truth.vcf", "{W}/truth.vcf"]))
        out.append(dict(base, name="gen-phase-multisample-hp-distrust", subcommand="phase",
                        argv=["phase", "-o", "{out:phased.vcf.gz}", "--reference", "{W}/ref.fa", "--tag", "HP", "--distrust-genotypes", "--include-homozygous",
                              "--changed-genotype-list", "{out:changed.tsv}", "{W}/in.vcf", "{W}/reads.bam"]))
        out.append(dict(base, name="gen-phase-multisample-bcf", subcommand="phase",
                        argv=["phase", "-o", "{out:phased.bcf}", "--reference", "{W}/ref.fa", "--sample", w["samples"][-1], "--sample", w["samples"][0],
                              "--output-read-list", "{out:reads.tsv}", "{W}/in.vcf", "{W}/reads.bam"]))
        out.append(dict(base, name="gen-stats-truth", subcommand="stats",
                        argv=["stats", "--tsv", "{out:stats.tsv}", "--block-list", "{out:blocks.tsv}", "--gtf", "{out:blocks.gtf}", "--sample", w["samples"][0], "{W}/truth.vcf"], stdout="text"))
        out.append(dict(base, name="gen-genotype-multisample", subcommand="genotype",
                        argv=["genotype", "-o", "{out:genotyped.vcf}", "--reference", "{W}/ref.fa", "{W}/in.vcf", "{W}/reads.bam"]))
    elif kind == "extreme-depth":
        # far more overlapping alignments than any ordinary data set has (amplicon / collapsed repeat): numeric limits of readers
        w = W.gen_core(rng, n_chroms=1, n_samples=1, kinds=["snv"], length=rng.choice([260, 400]), n_variants=rng.choice([5, 8]), het_rate=1.0, min_gap=25)
        W.gen_library(rng, w, "L0", depth=rng.choice([1100, 1600, 2500]), read_len=(120, 250), cuts=0)
        for r in w["libs"]["L0"]["reads"]:
            r["bq"] = rng.choice([20, 30, 40])
        files = [{"kind": "ref", "name": "ref.fa"}, {"kind": "bam", "lib": "L0", "name": "reads.bam"}, {"kind": "vcf", "name": "in.vcf"},
                 {"kind": "vcfgz", "name": "phased.vcf.gz", "phased": "PS"}]
        base = {"world": W.clean_world(w), "files": files, "stdout": None, "expect_exit": 0}
        out.append(dict(base, name="gen-phase-extreme-depth", subcommand="phase",
                        argv=["phase", "-o", "{out:phased.vcf}", "--no-reference", "--ignore-read-groups", "--output-read-list", "{out:reads.tsv}", "{W}/in.vcf", "{W}/reads.bam"]))
        out.append(dict(base, name="gen-haplotag-extreme-depth", subcommand="haplotag",
                        argv=["haplotag", "-o", "{out:tagged.bam}", "--output-haplotag-list", "{out:list.tsv}", "--no-reference", "--ignore-read-groups",
                              "--output-threads", "{othreads}", "{W}/phased.vcf.gz", "{W}/reads.bam"]))
    elif kind == "compare-names":
        w1 = W.gen_core(rng, n_chroms=rng.choice([1, 2]), n_samples=1, sample_names=[rng.choice(["alpha", "s1", "b"])], kinds=["snv"], length=1000,
                        n_variants=rng.choice([12, 18, 25]), het_rate=0.95)
        W.add_alt_truth(rng, w1, "alt", flip_rate=0.15)
        W.add_alt_truth(rng, w1, "alt2", flip_rate=0.3)
        # contig names as in real assemblies: same leading number, with and without prefix, zero padded
        for c, nm in zip(w1["chroms"], rng.choice([["chr1", "chr1_KI270706v1_random"], ["1", "chr1"], ["chr01", "chr1"], ["chr2", "chr10"], ["chrB", "chrA"]])):
            c["name"] = nm
        files = [{"kind": "vcf", "name": "a.vcf", "phased": "PS", "truth": "main"},
                 {"kind": "vcf", "name": "b.vcf", "phased": "PS", "truth": "alt", "rename": {w1["samples"][0]: rng.choice(["beta", "s2", "a"])}},
                 {"kind": "vcf", "name": "c.vcf", "phased": "PS", "truth": "alt2", "rename": {w1["samples"][0]: rng.choice(["gamma", "s3", "C"])}}]
        base = {"world": W.clean_world(w1), "files": files, "stdout": "text", "expect_exit": 0}
        out.append(dict(base, name="gen-compare-ignore-name-3way", subcommand="compare",
                        argv=["compare", "--ignore-sample-name", "--tsv-pairwise", "{out:pair.tsv}", "--tsv-multiway", "{out:multi.tsv}",
                              "--switch-error-bed", "{out:sw.bed}", "--longest-block-tsv", "{out:lb.tsv}", "{W}/a.vcf", "{W}/b.vcf", "{W}/c.vcf"]))
        out.append(dict(base, name="gen-compare-ignore-name-2way", subcommand="compare",
                        argv=["compare", "--ignore-sample-name", "--names", "x,y", "--tsv-pairwise", "{out:pair.tsv}", "{W}/a.vcf", "{W}/c.vcf"]))
    elif kind == "polyploid-blocks":
        ploidy = rng.choice([3, 4, 4])
        w = W.gen_core(rng, n_chroms=1, n_samples=rng.choice([1, 2, 2]), ploidy=ploidy, kinds=["snv"], length=rng.choice([2000, 3000]),
                       n_variants=rng.choice([20, 30, 45]), het_rate=0.9, min_gap=25)
        W.gen_library(rng, w, "L0", depth=rng.choice([20, 30, 40]), read_len=(200, 500), cuts=rng.choice([2, 3, 4, 5]))
        if rng.random() < 0.5:
            # non-contiguous linkage: gapped alignments (one long deletion / skipped region) connect variant groups that are far apart
            # and say nothing about the groups in between, so that a block can hang together only through variants outside any
            # interval somebody might cut out of the matrix
            L0 = len(w["chroms"][0]["seq"])
            extra = []
            for s_ in w["samples"]:
                for j in range(rng.choice([12, 30, 60])):
                    a = rng.randrange(0, L0 // 2)
                    b = min(L0, a + rng.randrange(500, L0))
                    if b - a < 420:
                        continue
                    ga, gb = a + rng.randrange(100, 200), b - rng.randrange(100, 200)
                    extra.append({"name": "L0_gap_%s_%d" % (s_, j), "sample": s_, "chrom": 0, "start": a, "end": b, "hap": rng.randrange(ploidy),
                                  "mapq": 60, "flag": 0, "gaps": [[ga, gb]]})
            w["libs"]["L0"]["reads"] += extra
        files = [{"kind": "ref", "name": "ref.fa"}, {"kind": "bam", "lib": "L0", "name": "reads.bam"}, {"kind": "vcf", "name": "in.vcf"}]
        base = {"world": W.clean_world(w), "files": files, "stdout": None, "expect_exit": 0}
        out.append(dict(base, name="gen-polyphase-blocks", subcommand="polyphase",
                        argv=["polyphase", "-o", "{out:phased.vcf}", "--ploidy", str(ploidy), "--reference", "{W}/ref.fa", "--threads", "{threads}", "{W}/in.vcf", "{W}/reads.bam"]))
        if len(w["samples"]) > 1:
            # one sample comes with a pre-phasing, the other without: per-sample options must not leak between samples
            files.append({"kind": "vcf", "name": "pre.vcf", "phased": "PS", "psamples": [w["samples"][rng.randrange(len(w["samples"]))]], "nsets": rng.choice([1, 2]),
                          "thin": rng.choice([None, [rng.randrange(10**6), 20], [rng.randrange(10**6), 40]])})
            out.append(dict(base, name="gen-polyphase-prephasing-mixed", subcommand="polyphase",
                            argv=["polyphase", "-o", "{out:phased.vcf}", "--ploidy", str(ploidy), "--reference", "{W}/ref.fa", "--threads", "{threads}",
                                  "--use-prephasing", "-B", rng.choice(["0", "1", "2"]), "{W}/pre.vcf", "{W}/reads.bam"]))
        files.append({"kind": "vcf", "name": "partial.vcf", "phased": "PS", "nsets": rng.choice([1, 2, 3]), "thin": [rng.randrange(10**6), rng.choice([15, 30, 50])]})
        out.append(dict(base, name="gen-polyphase-prephasing-partial", subcommand="polyphase",
                        argv=["polyphase", "-o", "{out:phased.vcf}", "--ploidy", str(ploidy), "--reference", "{W}/ref.fa", "--threads", "{threads}",
                              "--use-prephasing", "-B", rng.choice(["0", "1", "4"]), "{W}/partial.vcf", "{W}/reads.bam"]))
        out.append(dict(base, name="gen-polyphase-blocks-B1", subcommand="polyphase",
                        argv=["polyphase", "-o", "{out:phased.vcf}", "--ploidy", str(ploidy), "--reference", "{W}/ref.fa", "--threads", "{threads}",
                              "-B", rng.choice(["0", "1", "3", "5"]), "--include-haploid-sets", "{W}/in.vcf", "{W}/reads.bam"]))
    elif kind == "readlists":
        # split / stats / compare on multi-sample, multi-chromosome data with ties: equally large phased blocks,
        # read names occurring in two blocks, reads listed as 'none'
        names = rng.choice([["s1", "s2", "s3"], ["NA12878", "NA12891", "NA12892"], ["b", "a", "C"]])
        w = W.gen_core(rng, n_chroms=2, n_samples=rng.choice([2, 3]), sample_names=names, kinds=["snv"], length=rng.choice([600, 900]), het_rate=0.9)
        W.add_alt_truth(rng, w, "alt", flip_rate=0.3)
        W.gen_library(rng, w, "L0", depth=rng.choice([3, 5]), read_len=(150, 400), samples=w["samples"][:1])
        lines = ["#readname\thaplotype\tphaseset\tchromosome"]
        reads = w["libs"]["L0"]["reads"]
        per_chrom = {}
        for r in reads:
            per_chrom.setdefault(r["chrom"], []).append(r)
        for ci, lst in sorted(per_chrom.items()):
            cname = w["chroms"][ci]["name"]
            half = max(1, len(lst) // 2)
            # two blocks of exactly the same size per chromosome: --only-largest-block has to break a tie
            for j, r in enumerate(lst[:2 * half]):
                block = 100 if j < half else 5000
                lines.append("%s\t%s\t%d\t%s" % (r["name"], "H%d" % (r["hap"] + 1), block, cname))
            for r in lst[2 * half:]:
                lines.append("%s\tnone\tnone\t%s" % (r["name"], cname))
        files = [{"kind": "ref", "name": "ref.fa"}, {"kind": "bam", "lib": "L0", "name": "reads.bam"},
                 {"kind": "vcf", "name": "truth.vcf", "phased": "PS"}, {"kind": "vcf", "name": "alt.vcf", "phased": "PS", "truth": "alt"},
                 {"kind": "text", "name": "list.tsv", "text": "\n".join(lines) + "\n"},
                 {"kind": "text", "name": "chr-lengths.txt", "text": "".join("%s\t%d\n" % (c["name"], len(c["seq"])) for c in w["chroms"])}]
        base = {"world": W.clean_world(w), "files": files, "stdout": None, "expect_exit": 0}
        out.append(dict(base, name="gen-split-largest-block", subcommand="split",
                        argv=["split", "--output-h1", "{out:h1.bam}", "--output-h2", "{out:h2.bam}", "--output-untagged", "{out:un.bam}",
                              "--only-largest-block", "--read-lengths-histogram", "{out:hist.tsv}", "{W}/reads.bam", "{W}/list.tsv"]))
        out.append(dict(base, name="gen-split-add-untagged", subcommand="split",
                        argv=["split", "--output-h1", "{out:h1.bam}", "--output-h2", "{out:h2.bam}", "--add-untagged", "--discard-unknown-reads",
                              "{W}/reads.bam", "{W}/list.tsv"]))
        out.append(dict(base, name="gen-stats-multisample", subcommand="stats", stdout="text",
                        argv=["stats", "--tsv", "{out:stats.tsv}", "--block-list", "{out:blocks.tsv}", "--gtf", "{out:blocks.gtf}",
                              "--chr-lengths", "{W}/chr-lengths.txt", "{W}/truth.vcf"]))
        out.append(dict(base, name="gen-compare-multisample", subcommand="compare", stdout="text",
                        argv=["compare", "--sample", w["samples"][-1], "--tsv-pairwise", "{out:pair.tsv}", "--switch-error-bed", "{out:sw.bed}",
                              "--longest-block-tsv", "{out:lb.tsv}", "--names", "truth,alt", "{W}/truth.vcf", "{W}/alt.vcf"]))
    elif kind == "polyploid-deep":
        # several read-disconnected blocks of very different depth: many distinct allele-depth profiles, more pool tasks
        ploidy = 4
        nseg = rng.choice([6, 8, 10, 12])
        SL = 330
        L = SL * nseg
        w = W.gen_core(rng, n_chroms=1, n_samples=1, ploidy=ploidy, kinds=["snv"], length=L, n_variants=6 * nseg, het_rate=0.95, min_gap=30)
        segs = []
        gap_block = rng.randrange(1, nseg - 1) if rng.random() < 0.6 else None
        for k in range(nseg):
            depth = rng.randrange(20, 161)
            if k == gap_block:
                depth = rng.choice([6, 8, 12])  # the block the gapped reads jump over is thinly covered
            segs.append((0, k * SL + 8, (k + 1) * SL - 8, depth))
        W.gen_library_segments(rng, w, "L0", segs, read_len=(160, 314))
        # gapped alignments (one long deletion, as for spliced reads or reads across a structural variant) that span a whole
        # block without covering any variant in it
        if gap_block is not None:
            extra = []
            for j in range(rng.choice([30, 80, 150])):
                k = gap_block - 1
                a = rng.randrange(k * SL + 60, (k + 1) * SL - 40)
                b = rng.randrange((k + 2) * SL + 40, (k + 3) * SL - 60)
                extra.append({"name": "L0_gap_%d" % j, "sample": w["samples"][0], "chrom": 0, "start": a, "end": b, "hap": rng.randrange(ploidy),
                              "mapq": 60, "flag": 0, "gaps": [[(k + 1) * SL - 12, (k + 2) * SL + 12]]})
            w["libs"]["L0"]["reads"] += extra
        files = [{"kind": "ref", "name": "ref.fa"}, {"kind": "bam", "lib": "L0", "name": "reads.bam"}, {"kind": "vcf", "name": "in.vcf"}]
        base = {"world": W.clean_world(w), "files": files, "stdout": None, "expect_exit": 0}
        out.append(dict(base, name="gen-polyphase-deep", subcommand="polyphase",
                        argv=["polyphase", "-o", "{out:phased.vcf}", "--ploidy", "4", "--reference", "{W}/ref.fa", "--threads", "{threads}", "{W}/in.vcf", "{W}/reads.bam"]))
    elif kind == "pedigree":
        fams = rng.choice([1, 1, 1, 2])
        names_pool = rng.choice([["kid", "mum", "dad", "kid2", "mum2", "dad2"], ["c", "B", "a", "Z", "y", "X"], ["NA3", "NA1", "NA2", "HG3", "HG1", "HG2"]])
        extra_kids = rng.choice([[], ["sib"], ["sib"]]) if fams == 1 else []
        samples = names_pool[:3 * fams] + extra_kids
        order = list(samples)
        rng.shuffle(order)
        w = W.gen_core(rng, n_chroms=rng.choice([1, 2]), n_samples=len(order), sample_names=order, kinds=["snv"], length=rng.choice([600, 1200]), het_rate=0.8)
        # make the children Mendelian: child = (one maternal haplotype, one paternal haplotype)
        t = w["truth"]["main"]
        ped_lines = []
        for f in range(fams):
            kid, mum, dad = names_pool[3 * f], names_pool[3 * f + 1], names_pool[3 * f + 2]
            kids = [kid] + extra_kids
            ncore = len(t[mum][0])
            for kd in kids:
                hm, hf = rng.randrange(2), rng.randrange(2)
                mat, pat = list(t[mum][hm]), list(t[dad][hf])
                # a recombination in one parent's transmission for some children
                if ncore > 4 and rng.random() < 0.5:
                    bp = rng.randrange(2, ncore - 1)
                    mat = mat[:bp] + list(t[mum][1 - hm])[bp:]
                if ncore > 4 and rng.random() < 0.3:
                    bp = rng.randrange(2, ncore - 1)
                    pat = pat[:bp] + list(t[dad][1 - hf])[bp:]
                t[kd] = [mat, pat]
                ped_lines.append("fam%d %s %s %s 0 1" % (f, kd, dad, mum))
        cores = [r for r in w["records"] if r.get("core")]
        for k, r in enumerate(cores):
            for s in order:
                al = sorted(h[k] for h in t[s])
                r["calls"][s][0] = "/".join(str(a) for a in al)
        rng.shuffle(ped_lines)
        W.gen_library(rng, w, "L0", depth=rng.choice([3, 6, 10, 16, 24]), read_len=(150, 500))
        maxcov = str(rng.choice([15, 15, 14, 10, 8, 7]))
        files = [{"kind": "ref", "name": "ref.fa"}, {"kind": "bam", "lib": "L0", "name": "reads.bam"}, {"kind": "vcf", "name": "in.vcf"},
                 {"kind": "text", "name": "fam.ped", "text": "\n".join(ped_lines) + "\n"}]
        base = {"world": W.clean_world(w), "files": files, "stdout": None, "expect_exit": 0}
        out.append(dict(base, name="gen-phase-ped", subcommand="phase",
                        argv=["phase", "-o", "{out:phased.vcf}", "--reference", "{W}/ref.fa", "--ped", "{W}/fam.ped", "--recombination-list", "{out:recomb.tsv}",
                              "--output-read-list", "{out:reads.tsv}", "--internal-downsampling", maxcov, "{W}/in.vcf", "{W}/reads.bam"]))
        out.append(dict(base, name="gen-phase-ped-use-ped-samples", subcommand="phase",
                        argv=["phase", "-o", "{out:phased.vcf}", "--reference", "{W}/ref.fa", "--ped", "{W}/fam.ped", "--use-ped-samples", "--tag", rng.choice(["HP", "PS"]),
                              "--output-read-list", "{out:reads.tsv}", "--recombination-list", "{out:recomb.tsv}", "--internal-downsampling", maxcov,
                              "{W}/in.vcf", "{W}/reads.bam"]))
        out.append(dict(base, name="gen-phase-ped-distrust", subcommand="phase",
                        argv=["phase", "-o", "{out:phased.vcf}", "--reference", "{W}/ref.fa", "--ped", "{W}/fam.ped", "--use-ped-samples", "--distrust-genotypes",
                              "--changed-genotype-list", "{out:changed.tsv}", "--output-read-list", "{out:reads.tsv}", "--no-genetic-haplotyping",
                              "{W}/in.vcf", "{W}/reads.bam"]))
        if len(w["chroms"]) > 1:
            out.append(dict(base, name="gen-phase-ped-chromosome", subcommand="phase",
                            argv=["phase", "-o", "{out:phased.vcf}", "--reference", "{W}/ref.fa", "--ped", "{W}/fam.ped", "--chromosome", w["chroms"][-1]["name"],
                                  "--recombination-list", "{out:recomb.tsv}", "--output-read-list", "{out:reads.tsv}", "--recombrate", "50",
                                  "{W}/in.vcf", "{W}/reads.bam"]))
        if not extra_kids:
            out.append(dict(base, name="gen-genotype-ped", subcommand="genotype",
                            argv=["genotype", "-o", "{out:genotyped.vcf}", "--reference", "{W}/ref.fa", "--ped", "{W}/fam.ped", "{W}/in.vcf", "{W}/reads.bam"]))
    else:
        raise ValueError(kind)
    return out


GEN_KINDS = ["haplotag-collide", "multisample-phase", "compare-names", "polyploid-blocks", "polyploid-deep", "pedigree", "readlists", "extreme-depth"]


def materialise_world(sc, dirpath):
    os.makedirs(dirpath, exist_ok=True)
    w = sc["world"]
    for f in sc["files"]:
        p = os.path.join(dirpath, f["name"])
        if os.path.exists(p):
            continue
        os.makedirs(os.path.dirname(p), exist_ok=True)
        if f["kind"] == "ref":
            W.write_reference(w, p)
        elif f["kind"] == "bam":
            W.write_bam(copy.deepcopy(w), f["lib"], p)
        elif f["kind"] in ("vcf", "vcfgz"):
            ww = w
            if f.get("phased"):
                ww = phased_copy(w, truth=f.get("truth", "main"), tag=f["phased"], nsets=f.get("nsets", 1), samples=f.get("psamples"), thin=f.get("thin"))
            if f.get("rename"):
                ww = copy.deepcopy(ww)
                ren = f["rename"]
                ww["samples"] = [ren.get(s, s) for s in ww["samples"]]
                for r in ww["records"]:
                    r["calls"] = {ren.get(s, s): v for s, v in r["calls"].items()}
            if f["kind"] == "vcf":
                W.write_vcf(ww, p)
            else:
                tmp = p[:-3]
                W.write_vcf(ww, tmp)
                W.bgzip_index(tmp, p)
                os.unlink(tmp)
        elif f["kind"] == "text":
            with open(p, "w") as fh:
                fh.write(f["text"])


# ------------------------------------------------------------------------------------------------
# case generation


def draw_config(rng, reference=False, allow=None):
    if reference:
        return {"threads": 1, "othreads": 1, "pool": {"mode": "fifo", "script": [], "seed": 0},
                "clock": {"enabled": [], "script": [], "seed": 0}, "repeat": "none", "env": {}, "debug": False}
    allow = allow or {"threads", "othreads", "pool", "clock", "repeat", "env", "debug"}
    cfg = draw_config(rng, reference=True)
    if "threads" in allow:
        cfg["threads"] = rng.choice([1, 2, 2, 3, 4, 5])
    if "othreads" in allow:
        cfg["othreads"] = rng.choice([1, 2, 3, 4])
    if "pool" in allow:
        cfg["pool"] = {"mode": rng.choice(POOL_MODES), "script": [rng.randrange(1 << 16) for _ in range(rng.choice([0, 8, 40]))], "seed": rng.randrange(1 << 30)}
    if "clock" in allow:
        en = [k for k in CLOCK_FAULTS if rng.random() < 0.5]
        cfg["clock"] = {"enabled": en, "script": [rng.randrange(1 << 20) for _ in range(rng.choice([0, 16]))], "seed": rng.randrange(1 << 30)}
    if "repeat" in allow:
        cfg["repeat"] = rng.choice(["none", "none", "twice", "dirty"])
    if "env" in allow:
        # the process environment is not an input either
        cfg["env"] = rng.choice([{}, {}, {"TZ": "Pacific/Kiritimati"}, {"TZ": "America/St_Johns"}, {"LC_ALL": "C"}, {"LC_ALL": "C.UTF-8", "LANG": "C.UTF-8"},
                                 {"COLUMNS": "37", "LINES": "9"}, {"TMPDIR": "{node}/tmp"}, {"HOME": "{node}/home"},
                                 {"TMPDIR": "{node}/tmp", "HOME": "{node}/home"}, {"TMPDIR": "{node}/tmp", "HOME": "{node}/home"}, {"USER": "someoneelse", "LOGNAME": "someoneelse"}])
    if "debug" in allow:
        cfg["debug"] = rng.random() < 0.3  # whatshap --debug <subcommand>: verbosity is not an input
    return cfg


def gen_case(rng, tier, catalogue):
    n_cat = rng.choice([10, 14, 18]) if tier == "quick" else rng.choice([14, 20, 28])
    by_sub = {}
    for sc in catalogue:
        by_sub.setdefault(sc["subcommand"], []).append(sc)
    chosen = []
    subs = sorted(by_sub)
    rng.shuffle(subs)
    n_cat = min(n_cat, len(catalogue))
    guard = 0
    while len(chosen) < n_cat and guard < 50:
        guard += 1
        for sub in subs:
            sc = rng.choice(by_sub[sub])
            if sc["name"] not in {c["name"] for c in chosen}:
                chosen.append(copy.deepcopy(sc))
            if len(chosen) >= n_cat:
                break
    n_gen = rng.choice([2, 3]) if tier == "quick" else rng.choice([3, 4, 5])
    # the worker pool only has work to schedule on multi-block polyploid worlds: one of them in every case
    kinds = ["polyploid-deep"] + rng.sample([k for k in GEN_KINDS if k != "polyploid-deep"], min(n_gen, len(GEN_KINDS) - 1))
    worlds = []
    for wi, kind in enumerate(kinds):
        scs = make_generated(rng, kind)
        worlds.append({"world": scs[0]["world"], "files": scs[0]["files"]})
        for sc in scs:
            sc = dict(sc)
            sc.pop("world")
            sc.pop("files")
            sc["w"] = wi
            sc["name"] = "%s@w%d" % (sc["name"], wi)
            chosen.append(sc)
    for i, sc in enumerate(chosen):
        sc["idx"] = i
    K = 5 if tier == "quick" else 8
    nodes = []
    for k in range(K):
        ref = k < 2
        hs = 0 if ref else rng.choice([1, 2, 3, 5, 7, 11, 13, 42, 123, 1000, 4242, 65537, rng.randrange(1, 2**32 - 1)])
        # swarm: each faulted node enables a random subset of fault dimensions
        allow = None if ref else {d for d in ("threads", "othreads", "pool", "clock", "repeat", "env", "debug") if rng.random() < 0.7}
        mtime = None if ref else rng.choice([None, None, "data-newer", "index-newer"])
        cfgs = [draw_config(rng, reference=ref, allow=allow) for _ in chosen]
        nodes.append({"hashseed": hs, "configs": cfgs, "mtime": mtime, "optimize": (not ref) and rng.random() < 0.25})
    return {"scenarios": chosen, "worlds": worlds, "nodes": nodes}


# ------------------------------------------------------------------------------------------------
# execution


def _symlink_tree(src, dst):
    os.makedirs(dst, exist_ok=True)
    for name in os.listdir(src):
        s = os.path.join(src, name)
        d = os.path.join(dst, name)
        if os.path.isdir(s):
            _symlink_tree(s, d)
        else:
            os.symlink(s, d)


def run_nodes(case, casedir, scratch, node_indices=None, timeout=900):
    """materialise, launch the nodes in parallel, return {k: results.json content}"""
    wroot = os.path.join(casedir, "worlds")
    for wi, wd in enumerate(case.get("worlds", [])):
        materialise_world(wd, os.path.join(wroot, "w%d" % wi))
    data_src = os.path.join(scratch, "tests", "data")
    names = sorted({s for wd in case.get("worlds", []) for s in wd["world"]["samples"]}) or ["s1", "s2", "s3"]
    procs = {}
    for k, node in enumerate(case["nodes"]):
        if node_indices is not None and k not in node_indices:
            continue
        nd = os.path.join(casedir, "node%d" % k)
        os.makedirs(nd)
        _symlink_tree(data_src, os.path.join(nd, "data"))
        for wi in range(len(case.get("worlds", []))):
            if node.get("mtime"):
                # same bytes, other modification times: copies whose data files are newer than their indexes, or the reverse
                dst = os.path.join(nd, "w%d" % wi)
                shutil.copytree(os.path.join(wroot, "w%d" % wi), dst)
                base_t = 1_600_000_000
                for fn in sorted(os.listdir(dst)):
                    is_index = fn.endswith((".tbi", ".csi", ".bai", ".fai", ".crai"))
                    newer = (node["mtime"] == "index-newer") == is_index
                    t = base_t + (5000 if newer else 0)
                    os.utime(os.path.join(dst, fn), (t, t))
            else:
                _symlink_tree(os.path.join(wroot, "w%d" % wi), os.path.join(nd, "w%d" % wi))
        scs = []
        for sc, cfg in zip(case["scenarios"], node["configs"]):
            argv = [a.replace("{W}", "{w%d}" % sc["w"]) if "w" in sc else a for a in sc["argv"]]
            if cfg.get("debug"):
                argv = ["--debug"] + argv
            scs.append({"idx": sc["idx"], "name": sc["name"], "argv": argv, "stdout": sc.get("stdout"), "config": cfg})
        job = {"node": k, "node_dir": nd, "scenarios": scs, "census": {"samples": names, "tags": ["HP", "PS", "PQ", "GT", "GQ", "DP"]}, "timeout": 150}
        jp = os.path.join(nd, "job.json")
        with open(jp, "w") as f:
            json.dump(job, f)
        env = dict(os.environ)
        env["PYTHONHASHSEED"] = str(node["hashseed"])
        env.pop("PYTHONOPTIMIZE", None)
        if node.get("optimize"):
            env["PYTHONOPTIMIZE"] = "1"  # python -O: assert statements are not executed; results must not depend on them
        env["PYTHONPATH"] = scratch + os.pathsep + VERIF
        env.pop("VERIF_SELFTEST_CHILD", None)
        log = open(os.path.join(nd, "node.log"), "w")
        procs[k] = (subprocess.Popen([PY, "-m", "sim.node_main", jp], env=env, stdout=log, stderr=subprocess.STDOUT, cwd=VERIF), log, nd)
    out = {}
    for k, (p, log, nd) in procs.items():
        try:
            p.wait(timeout=timeout)
        except subprocess.TimeoutExpired:
            p.kill()
            p.wait()
        log.close()
        rp = os.path.join(nd, "results.json")
        if os.path.exists(rp):
            out[k] = json.load(open(rp))
        else:
            tail = open(os.path.join(nd, "node.log")).read()[-1500:]
            out[k] = {"node_failure": "node %d produced no results (exit %s): %s" % (k, p.returncode, tail)}
    return out


def first_diff(casedir, k0, k1, idx, name):
    def rd(k):
        p = os.path.join(casedir, "node%d" % k, "s%03d" % idx, "norm_" + name.replace("<", "").replace(">", ""))
        try:
            return open(p, encoding="latin-1").read().split("\n")
        except OSError:
            return None
    a, b = rd(k0), rd(k1)
    if a is None or b is None:
        return "output %s: %s" % (name, "missing in reference" if a is None else "missing in node")
    for i, (x, y) in enumerate(zip(a, b)):
        if x != y:
            return "line %d: reference %r vs node %r" % (i + 1, x[:160], y[:160])
    return "length %d vs %d lines" % (len(a), len(b))


def describe_cfg(node, cfg):
    return "hashseed=%s threads=%d out-threads=%d pool=%s clock=%s repeat=%s%s" % (
        node["hashseed"], cfg["threads"], cfg["othreads"], cfg["pool"]["mode"], "+".join(cfg["clock"]["enabled"]) or "monotone", cfg["repeat"],
        (" env=%s" % ",".join("%s=%s" % kv for kv in sorted(cfg.get("env", {}).items())) if cfg.get("env") else "")
        + (" --debug" if cfg.get("debug") else "") + (" mtimes=%s" % node["mtime"] if node.get("mtime") else "") + (" python-O" if node.get("optimize") else ""))


def blame(node, cfg):
    """which dimensions differ from the reference (for the signature)"""
    dims = []
    if node["hashseed"] != 0:
        dims.append("hashseed")
    if cfg["threads"] != 1:
        dims.append("threads")
    if cfg["othreads"] != 1:
        dims.append("out-threads")
    if cfg["pool"]["mode"] != "fifo":
        dims.append("pool")
    if cfg["clock"]["enabled"]:
        dims.append("clock")
    if cfg["repeat"] != "none":
        dims.append("repeat")
    if cfg.get("env"):
        dims.append("env")
    if cfg.get("debug"):
        dims.append("debug")
    if node.get("mtime"):
        dims.append("mtime")
    if node.get("optimize"):
        dims.append("python-O")
    return dims


class NodeEngine(Engine):
    name = "nodesim"
    properties = ("C16",)
    jobs_divisor = 4

    def __init__(self):
        self._cat = None

    def catalogue(self):
        if self._cat is None:
            self._cat = load_catalogue()
        return self._cat

    def tiers(self, prop):
        return {"quick": dict(cases=16, per_batch=1, budget_s=400, batch_timeout=900, min_budget_s=150),
                "thorough": dict(cases=160, per_batch=1, budget_s=2400, batch_timeout=1500, min_budget_s=300)}

    def gen(self, prop, rng, tier):
        return gen_case(rng, tier, self.catalogue())

    def run(self, prop, case):
        from . import build

        scratch = os.environ.get("PYTHONPATH", "").split(os.pathsep)[0]
        base = os.path.join(build.scratch_root(), "runs")
        os.makedirs(base, exist_ok=True)
        casedir = tempfile.mkdtemp(prefix="n", dir=base)
        log = EventLog()
        stats = Counter()
        viol = []
        shapes = []
        try:
            res = run_nodes(case, casedir, scratch)
            for k, r in res.items():
                if "node_failure" in r:
                    raise RuntimeError(r["node_failure"])
            orders = {tuple(r["census"]["samples"]) for r in res.values()}
            stats.inc("distinct_sample_set_orders_seen_max", 0)
            stats["max_set_orders_in_a_case"] = max(stats.get("max_set_orders_in_a_case", 0), len(orders))
            ref = {r["idx"]: r for r in res[0]["results"]}
            twin = {r["idx"]: r for r in res[1]["results"]} if 1 in res else {}
            unstable = set()
            for sc in case["scenarios"]:
                i = sc["idx"]
                r0 = ref[i]
                if "node_failure" in r0:
                    if "timeout" in r0["node_failure"]:
                        stats.inc("reference_timeouts")
                        unstable.add(i)
                        continue
                    raise RuntimeError("reference node failed on %s: %s" % (sc["name"], r0["node_failure"]))
                log.add("ref", [sc["name"], r0["status"]["exit"], r0["status"]["exc"], sorted(r0["digests"].items())])
                stats.inc("scenario_executions")
                stats.inc("subcommand_" + sc.get("subcommand", sc["argv"][0]))
                if r0["status"]["exit"] != sc.get("expect_exit", 0):
                    stats.inc("reference_unexpected_exit")
                    stats.inc("reference_unexpected_exit:%s:%s" % (sc["name"].split("@")[0], r0["status"]["exit"]))
                    if r0["status"]["exit"] == 2:
                        # argparse rejected the command line: the scenario itself is wrong
                        stats.inc("reference_usage_error")
                        stats.inc("reference_usage_error:" + sc["name"].split("@")[0])
                if r0["status"]["exc"]:
                    stats.inc("reference_raised")
                t = twin.get(i)
                if t is not None and "node_failure" not in t:
                    stats.inc("scenario_executions")
                    if t["digests"] != r0["digests"] or t["status"]["exit"] != r0["status"]["exit"]:
                        unstable.add(i)
                        stats.inc("unstable_reference")
            for k, node in enumerate(case["nodes"]):
                if k < 2 or k not in res:
                    continue
                for r in res[k]["results"]:
                    i = r["idx"]
                    sc = case["scenarios"][i]
                    cfg = node["configs"][i]
                    stats.inc("scenario_executions")
                    if "node_failure" in r:
                        if "timeout" in r["node_failure"]:
                            stats.inc("node_timeouts_inconclusive")  # load dependent: never an alarm
                        elif "harness" in r["node_failure"]:
                            raise RuntimeError("node %d: %s" % (k, r["node_failure"]))
                        elif i not in unstable:
                            viol.append(violation("node-crashed", "%s on node %d (%s): %s" % (sc["name"], k, describe_cfg(node, cfg), r["node_failure"]),
                                                  "node-crashed:%s" % sc["name"].split("@")[0]))
                        continue
                    if i in ref and "node_failure" in ref[i]:
                        continue
                    for kk, n in r["pool"].items():
                        if n and kk not in ("pools", "tasks"):
                            stats.inc("fault_" + kk, n)
                    stats.inc("pool_uses", r["pool"]["pools"])
                    stats.inc("pool_tasks", r["pool"]["tasks"])
                    if cfg["threads"] > 1 and sc["argv"][0] == "polyphase":
                        stats.inc("parallel_scenarios")
                        if r["pool"]["pools"] == 0:
                            stats.inc("parallel_scenarios_seam_unused")
                    for kk, n in r["clock"]["fired"].items():
                        if n and kk != "tick":
                            stats.inc("fault_clock-" + kk, n)
                    stats["sim_clock_seconds_x1000"] = stats.get("sim_clock_seconds_x1000", 0) + int(r["clock"]["covered"] * 1000)
                    if cfg["repeat"] != "none":
                        stats.inc("fault_repeat-" + cfg["repeat"])
                    for ek in sorted(cfg.get("env", {})):
                        stats.inc("fault_env-" + ek)
                    if cfg.get("debug"):
                        stats.inc("fault_debug-logging")
                    if node.get("mtime") and "w" in sc:
                        stats.inc("fault_mtime-" + node["mtime"])
                    if node.get("optimize"):
                        stats.inc("fault_python-O")
                    if node["hashseed"] != 0:
                        stats.inc("fault_hashseed-change")
                    if cfg["threads"] != 1 and "{threads}" in sc["argv"]:
                        stats.inc("fault_worker-count")
                    if cfg["othreads"] != 1 and "{othreads}" in sc["argv"]:
                        stats.inc("fault_compression-threads")
                    for o in r.get("pool_orders", []):
                        shapes.append("sched:" + digest(o)[:16])
                    shapes.append("%s|%s" % (sc["name"].split("@")[0], digest([node["hashseed"], cfg])[:12]))
                    r0 = ref[i]
                    if cfg["repeat"] == "dirty":
                        # a file the command does not write at all (reference: absent) keeps its stale content in a
                        # pre-filled directory; that is not a result of this run
                        r = dict(r, digests={n: (d if r0["digests"].get(n) is not None else None) for n, d in r["digests"].items()})
                    same = r["digests"] == r0["digests"] and r["status"]["exit"] == r0["status"]["exit"] and r["status"]["exc"] == r0["status"]["exc"]
                    log.add("node", [k, i, same])
                    if same:
                        continue
                    if i in unstable:
                        stats.inc("differences_on_unstable_reference")
                        continue
                    dims = blame(node, cfg)
                    if r["status"]["exit"] != r0["status"]["exit"] or r["status"]["exc"] != r0["status"]["exc"]:
                        what = "exit status %s/%s vs reference %s/%s; %s" % (r["status"]["exit"], r["status"]["exc"], r0["status"]["exit"], r0["status"]["exc"],
                                                                              (r["status"].get("trace") or "")[-400:])
                        outname = "<status>"
                    else:
                        outname = sorted(n for n in r0["digests"] if r["digests"].get(n) != r0["digests"][n])[0]
                        what = "output %s differs: %s" % (outname, first_diff(casedir, 0, k, i, outname))
                    viol.append(violation(
                        "node-disagrees",
                        "scenario %s (whatshap %s): node with %s disagrees with the fault-free reference node: %s" % (
                            sc["name"], " ".join(sc["argv"][:1]), describe_cfg(node, cfg), what),
                        "node-disagrees:%s:%s" % (sc["name"].split("@")[0], outname),
                        dims=dims, node=k, scenario=i))
            unstable = {i for i in unstable if "node_failure" not in ref[i]}
            if unstable:
                # the reference disagrees with its identically configured twin: nondeterminism no seam controls.
                # Confirm by re-running both a second time; only a persistent disagreement is reported.
                shutil.rmtree(os.path.join(casedir, "node0"))
                shutil.rmtree(os.path.join(casedir, "node1"))
                sub = {"scenarios": [s for s in case["scenarios"] if s["idx"] in unstable], "worlds": case.get("worlds", []),
                       "nodes": [{"hashseed": n["hashseed"], "configs": [n["configs"][s["idx"]] for s in case["scenarios"] if s["idx"] in unstable]} for n in case["nodes"][:2]]}
                res2 = run_nodes(sub, casedir, scratch, node_indices={0, 1})
                a = {r["idx"]: r for r in res2[0].get("results", [])}
                b = {r["idx"]: r for r in res2[1].get("results", [])}
                for i in sorted(unstable):
                    sc = case["scenarios"][i]
                    if i in a and i in b and a[i].get("digests") != b[i].get("digests"):
                        outname = sorted(n for n in a[i]["digests"] if b[i]["digests"].get(n) != a[i]["digests"][n])[0]
                        viol.append(violation(
                            "self-disagreement",
                            "scenario %s: two executions with identical configuration (hash seed 0, one worker, clean directory) differ in %s: %s" % (
                                sc["name"], outname, first_diff(casedir, 0, 1, i, outname)),
                            "self-disagreement:%s:%s" % (sc["name"].split("@")[0], outname), scenario=i))
                    else:
                        stats.inc("unstable_reference_not_persistent")
        finally:
            if os.environ.get("VERIF_KEEP"):
                print("kept case directory: " + casedir)
            else:
                shutil.rmtree(casedir, ignore_errors=True)
        for v in viol:
            log.add("violation", [v["class"], v["signature"]])
        return {"log_digest": log.digest(), "violations": viol, "stats": stats, "nontrivial": True,
                "shape": log.digest()[:16], "shapes": shapes}

    # -- minimisation: one scenario, two nodes, then one fault dimension at a time back to reference
    def shrink(self, prop, case, want=None):
        scs = case["scenarios"]
        hint = (want or {}).get("detail", {})
        if len(scs) > 1:
            order = list(range(len(scs)))
            if hint.get("scenario") in order:
                order.remove(hint["scenario"])
                order.insert(0, hint["scenario"])
            for keep in order:
                yield restrict(case, [keep], None)
        nodes = case["nodes"]
        if len(nodes) > 3:
            order = list(range(2, len(nodes)))
            if hint.get("node") in order:
                order.remove(hint["node"])
                order.insert(0, hint["node"])
            for k in order:
                yield restrict(case, None, [0, 1, k])
        refcfg = draw_config(None, reference=True)
        for k in range(2, len(nodes)):
            n = nodes[k]
            if n["hashseed"] != 0:
                c = copy.deepcopy(case)
                c["nodes"][k]["hashseed"] = 0
                yield c
            if n.get("mtime"):
                c = copy.deepcopy(case)
                c["nodes"][k]["mtime"] = None
                yield c
            if n.get("optimize"):
                c = copy.deepcopy(case)
                c["nodes"][k]["optimize"] = False
                yield c
            for i, cfg in enumerate(n["configs"]):
                for key in ("repeat", "clock", "pool", "othreads", "threads", "env", "debug"):
                    if cfg.get(key, refcfg[key]) != refcfg[key]:
                        c = copy.deepcopy(case)
                        c["nodes"][k]["configs"][i][key] = copy.deepcopy(refcfg[key])
                        yield c
                if cfg["pool"]["script"]:
                    c = copy.deepcopy(case)
                    c["nodes"][k]["configs"][i]["pool"]["script"] = []
                    yield c
                if cfg["threads"] > 2:
                    c = copy.deepcopy(case)
                    c["nodes"][k]["configs"][i]["threads"] = 2
                    yield c
        # worlds that no remaining scenario uses
        used = {s["w"] for s in case["scenarios"] if "w" in s}
        if len(case.get("worlds", [])) > len(used):
            c = copy.deepcopy(case)
            order = sorted(used)
            c["worlds"] = [case["worlds"][w] for w in order]
            for s in c["scenarios"]:
                if "w" in s:
                    s["w"] = order.index(s["w"])
            yield c
        # shrink a generated world: fewer reads, fewer records, fewer chromosomes
        from .histsim import drop_records, drop_chrom

        for wi, wd in enumerate(case.get("worlds", [])):
            w = wd["world"]
            for lib, L in w.get("libs", {}).items():
                reads = L["reads"]
                if len(reads) > 2:
                    for half in (reads[:len(reads) // 2], reads[len(reads) // 2:]):
                        c = copy.deepcopy(case)
                        c["worlds"][wi]["world"]["libs"][lib]["reads"] = half
                        yield c
            if len(w["chroms"]) > 1:
                for ci in range(len(w["chroms"])):
                    c = copy.deepcopy(case)
                    c["worlds"][wi] = dict(c["worlds"][wi], world=drop_chrom({"world": w}, ci)["world"])
                    yield c
            nrec = len(w["records"])
            size = nrec // 2
            while size >= 1:
                for start in range(0, nrec, size):
                    idx = set(range(start, min(nrec, start + size)))
                    if len(idx) < nrec:
                        c = copy.deepcopy(case)
                        c["worlds"][wi] = dict(c["worlds"][wi], world=drop_records({"world": w}, idx)["world"])
                        yield c
                size //= 2

    def describe(self, prop):
        return {
            "rule": "case i from Random('C16:<seed>:<i>'): a scenario list (10-28 verified command lines over the repo's own test inputs covering all 13 subcommands, plus "
                    "2-5 generated worlds built to contain ties and collisions: identical read names in different read groups, trios/quartets whose PED order "
                    "differs from the VCF order, several families, differently named single-sample VCFs for compare --ignore-sample-name, polyploid worlds with "
                    "several read-disconnected blocks) executed by K nodes (5 quick / 8 thorough). Node = fresh interpreter with drawn PYTHONHASHSEED; per (node, scenario): "
                    "--threads 1-5, --output-threads 1-4, SimPool mode (fifo/random/skewed/stalled) + schedule script, SimClock faults (stall/forward/backward), "
                    "repetition (twice in the same directory / directory pre-filled with stale outputs and indexes). Node 0 = fault-free reference, node 1 = its twin. "
                    "Oracle: normalised outputs (VCF data lines verbatim + header lines as multiset minus ##commandline/##fileDate; BAM records as SAM text + header "
                    "minus @PG CL; other files byte-wise, gz decompressed; exit status) equal node 0's. evaluations = scenario executions; distinct = distinct "
                    "(scenario, node configuration) pairs plus distinct realised (dispatch order, delivery order) pairs of the worker pool.",
            "assumptions": [
                "the catalogue scenarios are the repo's own test invocations translated to command lines; generated worlds use error-free reads",
                "uncontrolled (no seam): htslib compression threads (only their count is chosen), the external cbc solver, memory addresses/ASLR; a scenario whose reference disagrees with its identically configured twin is re-run and reported as self-disagreement only if the disagreement persists",
                "header-line order is not compared (not a record); error-message text is not compared, exit status is",
                "sampling, not proof",
            ],
            "real_vs_stub": {
                "real": ["whatshap CLI entry point (whatshap.__main__.main) and everything below it", "pysam/htslib incl. its compression thread pool", "pyfaidx", "PuLP + cbc", "forked worker processes, pickle transport", "files on tmpfs"],
                "stub": ["multiprocessing.Pool / concurrent.futures executors -> SimPool dispatcher (which task starts where, which result is delivered next)", "whatshap.timer.time -> SimClock"],
                "uncontrolled": ["htslib threads", "cbc", "ASLR"]},
        }

    def evidence_extra(self, prop, stats, shapes=None):
        faults = {k[6:]: v for k, v in stats.items() if k.startswith("fault_")}
        shapes = shapes or {}
        return {"evaluations": stats.get("scenario_executions", 0),
                "distinct_pool_interleavings": sum(1 for k in shapes if k.startswith("sched:")),
                "distinct_scenario_x_node_configurations": sum(1 for k in shapes if not k.startswith("sched:")),
                "fault_kinds_fired": faults,
                "simulated_time_s": stats.get("sim_clock_seconds_x1000", 0) / 1000.0,
                "pool_uses": stats.get("pool_uses", 0), "pool_tasks": stats.get("pool_tasks", 0)}

    def required_reach(self, prop, tier):
        return {"scenario_executions": 100, "fault_hashseed-change": 20, "pool_uses": 1}

    def forbidden_reach(self, prop, tier):
        # every scenario is meant to end with its recorded exit status on the reference node
        return ["reference_usage_error"]

    def sample(self, prop, case):
        return {"scenarios": [{"name": s["name"], "argv": s["argv"]} for s in case["scenarios"][:6]] + ["... %d scenarios in total" % len(case["scenarios"])],
                "nodes": [{"hashseed": n["hashseed"], "first_config": n["configs"][0]} for n in case["nodes"]]}


def restrict(case, scenario_idx, node_idx):
    c = copy.deepcopy(case)
    if scenario_idx is not None:
        c["scenarios"] = [c["scenarios"][i] for i in scenario_idx]
        for n in c["nodes"]:
            n["configs"] = [n["configs"][i] for i in scenario_idx]
        for j, s in enumerate(c["scenarios"]):
            s["idx"] = j
    if node_idx is not None:
        c["nodes"] = [c["nodes"][k] for k in node_idx]
    return c


ENGINE = NodeEngine()
