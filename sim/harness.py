"""
Common run loop for all engines (DESIGN §3.1, §3.2, §7).

 * one integer (VERIF_SEED) decides everything: case i of a check is generated from
   random.Random(f"{property}:{seed}:{i}") and nothing else;
 * cases are executed in forked children (a crash or hang of real whatshap code is attributed to a
   case, never takes the harness down, and never turns into exit 0);
 * every case yields an event log; the digest of all logs is the run digest (self-test: equal for
   equal seeds whatever --jobs and whatever the harness' own hash seed);
 * violations are grouped by signature, minimised, written as replay files, replayed in a FRESH
   interpreter, and only then reported;  known findings are matched by (property, class, signature).

Exit codes: 0 held / 1 violation / 2 could not evaluate.
"""

import hashlib
import json
import os
import pickle
import random
import select
import signal
import subprocess
import sys
import time
import traceback

VERIF = os.path.dirname(os.path.dirname(os.path.abspath(__file__)))
REPLAYS = os.path.join(VERIF, "replays")
EVIDENCE = os.path.join(VERIF, "evidence") if os.environ.get("VERIF_REPO", "/repo") == "/repo" else "/tmp/mut/evidence-of-scratch-tree"  # evidence is only ever written from runs against /repo itself
KNOWN = os.path.join(VERIF, "known_findings.json")


# ------------------------------------------------------------------------------------------------
# small utilities


def jdump(obj):
    return json.dumps(obj, sort_keys=True, separators=(",", ":"), default=_json_default)


def _json_default(o):
    if isinstance(o, (set, frozenset)):
        return sorted(o)
    if isinstance(o, tuple):
        return list(o)
    if isinstance(o, bytes):
        return o.decode("latin-1")
    raise TypeError(type(o))


def digest(obj):
    if not isinstance(obj, (bytes, str)):
        obj = jdump(obj)
    if isinstance(obj, str):
        obj = obj.encode()
    return hashlib.sha256(obj).hexdigest()


class EventLog:
    """Append-only log of (seq, kind, payload-digest).  Never draws randomness, never reads a clock."""

    def __init__(self):
        self.events = []

    def add(self, kind, payload=None):
        self.events.append((len(self.events), kind, digest(payload)[:16] if payload is not None else ""))

    def digest(self):
        return digest(self.events)


def violation(cls, message, signature=None, **detail):
    return {"class": cls, "message": message, "signature": signature or cls, "detail": detail}


class Counter(dict):
    def inc(self, k, n=1):
        self[k] = self.get(k, 0) + n

    def merge(self, other):
        for k, v in other.items():
            if isinstance(v, (int, float)):
                self[k] = self.get(k, 0) + v


# ------------------------------------------------------------------------------------------------
# forked execution


def _child_main(fn, arg, wfd, timeout):
    try:
        import faulthandler

        faulthandler.enable()
        if timeout:
            faulthandler.dump_traceback_later(timeout, exit=True)
        try:
            res = ("ok", fn(arg))
        except BaseException:
            res = ("exc", traceback.format_exc())
        data = pickle.dumps(res)
        with os.fdopen(wfd, "wb") as w:
            w.write(data)
    finally:
        os._exit(0)


def forkmap(fn, args, jobs, timeout=300, on_result=None, deadline=None):
    """
    Run fn(arg) for every arg, each in its own forked child, at most `jobs` at a time.
    Returns list of (status, value) in the order of args; status in ok / exc / crash / timeout /
    skipped (deadline reached before the item was started).
    """
    results = [None] * len(args)
    pending = list(range(len(args)))[::-1]
    running = {}  # rfd -> (idx, pid, started, buf)
    sys.stdout.flush()
    sys.stderr.flush()
    while pending or running:
        while pending and len(running) < jobs:
            if deadline is not None and time.time() > deadline:
                for idx in pending:
                    results[idx] = ("skipped", None)
                pending = []
                break
            idx = pending.pop()
            rfd, wfd = os.pipe()
            pid = os.fork()
            if pid == 0:
                os.close(rfd)
                for r in running:
                    try:
                        os.close(r)
                    except OSError:
                        pass
                _child_main(fn, args[idx], wfd, timeout)
            os.close(wfd)
            running[rfd] = [idx, pid, time.time(), bytearray()]
        if not running:
            break
        ready, _, _ = select.select(list(running), [], [], 1.0)
        now = time.time()
        for rfd in ready:
            ent = running[rfd]
            chunk = os.read(rfd, 1 << 20)
            if chunk:
                ent[3] += chunk
                continue
            os.close(rfd)
            del running[rfd]
            _, status = os.waitpid(ent[1], 0)
            if ent[3]:
                try:
                    results[ent[0]] = pickle.loads(bytes(ent[3]))
                except Exception:
                    results[ent[0]] = ("crash", "undecodable result, wait status %d" % status)
            else:
                results[ent[0]] = ("crash", "child died, wait status %d" % status)
            if on_result:
                on_result(ent[0], results[ent[0]])
        for rfd, ent in list(running.items()):
            if timeout and now - ent[2] > timeout + 10:
                try:
                    os.kill(ent[1], signal.SIGKILL)
                except OSError:
                    pass
                os.waitpid(ent[1], 0)
                os.close(rfd)
                del running[rfd]
                results[ent[0]] = ("timeout", "no result after %ds" % timeout)
                if on_result:
                    on_result(ent[0], results[ent[0]])
    return results


class ChildRaised(Exception):
    """an exception raised by whatshap code inside call_in_fork; carries what the oracles need"""

    def __init__(self, type_name, message, site, is_command_line_error, tb):
        super().__init__("%s: %s" % (type_name, message))
        self.type_name = type_name
        self.message = message
        self.site = site
        self.is_command_line_error = is_command_line_error
        self.tb = tb


class ChildCrashed(Exception):
    pass


def call_in_fork(fn, timeout=300):
    """
    Run fn() in a forked child and return its (picklable) result.  Every whatshap invocation of a history runs this
    way: on the command line each operation is a process of its own, and process-global state (C++ statics, module
    level caches) must neither leak from one operation into the next nor from one generated case into another.
    """
    rfd, wfd = os.pipe()
    sys.stdout.flush()
    sys.stderr.flush()
    pid = os.fork()
    if pid == 0:
        try:
            os.close(rfd)
            try:
                res = ("ok", fn())
            except BaseException as e:  # noqa
                tb = traceback.format_exc()
                frames = [l for l in tb.strip().splitlines() if l.strip().startswith("File")]
                site = frames[-1].split(", in ")[-1].strip() if frames and ", in " in frames[-1] else ""
                is_cle = any(c.__name__ == "CommandLineError" for c in type(e).__mro__)
                res = ("exc", (type(e).__name__, str(e), site, is_cle, tb[-1500:]))
            try:
                data = pickle.dumps(res)
            except Exception as e:
                data = pickle.dumps(("exc", ("UnpicklableResult", str(e), "", False, "")))
            with os.fdopen(wfd, "wb") as w:
                w.write(data)
        finally:
            os._exit(0)
    os.close(wfd)
    chunks = []
    deadline = time.time() + timeout
    with os.fdopen(rfd, "rb") as r:
        while True:
            ready, _, _ = select.select([r], [], [], max(0.0, min(5.0, deadline - time.time())))
            if ready:
                chunk = os.read(r.fileno(), 1 << 20)
                if not chunk:
                    break
                chunks.append(chunk)
            elif time.time() > deadline:
                try:
                    os.kill(pid, signal.SIGKILL)
                except OSError:
                    pass
                os.waitpid(pid, 0)
                raise ChildCrashed("timeout after %ds" % timeout)
    _, status = os.waitpid(pid, 0)
    if not chunks:
        raise ChildCrashed("process died with wait status %d" % status)
    kind, val = pickle.loads(b"".join(chunks))
    if kind == "ok":
        return val
    raise ChildRaised(*val)


def run_one_forked(fn, arg, timeout=120):
    return forkmap(fn, [arg], 1, timeout=timeout)[0]


# ------------------------------------------------------------------------------------------------
# engines register here


class Engine:
    """Interface every engine implements."""

    name = "?"
    properties = ()

    def tiers(self, prop):
        """-> {tier: dict(cases=..., per_batch=..., budget_s=...)}"""
        raise NotImplementedError

    def gen(self, prop, rng, tier):
        """-> explicit, JSON-serialisable case"""
        raise NotImplementedError

    def run(self, prop, case):
        """-> dict(log_digest, violations=[...], stats=Counter, shape=str, nontrivial=bool)"""
        raise NotImplementedError

    def shrink(self, prop, case):
        """yield simpler candidate cases"""
        return iter(())

    def describe(self, prop):
        """-> dict(rule=..., assumptions=[...], real_vs_stub={...})"""
        return {}

    def sample(self, prop, case):
        """compact human-readable rendering for the evidence file"""
        return case


def case_rng(prop, seed, index):
    return random.Random("%s:%d:%d" % (prop, seed, index))


def _run_batch(arg):
    engine, prop, seed, tier, start, n = arg
    out = {"digests": [], "violations": [], "stats": Counter(), "shapes": {}, "samples": [],
           "nontrivial": 0, "cases": 0}
    for i in range(start, start + n):
        rng = case_rng(prop, seed, i)
        case = engine.gen(prop, rng, tier)
        res = engine.run(prop, case)
        out["cases"] += 1
        out["digests"].append((i, res["log_digest"]))
        out["stats"].merge(res.get("stats", {}))
        if res.get("nontrivial", True):
            out["nontrivial"] += 1
            for sh in (res.get("shapes") or [res.get("shape", res["log_digest"])]):
                out["shapes"][sh] = out["shapes"].get(sh, 0) + 1
        if len(out["samples"]) < 1 and res.get("nontrivial", True):
            out["samples"].append(engine.sample(prop, case))
        for v in res["violations"]:
            if len(out["violations"]) < 8:
                out["violations"].append({"index": i, "case": case, "violation": v})
            out["stats"].inc("violating_checks")
    return out


# ------------------------------------------------------------------------------------------------
# minimisation and replay


def _same_violation(res, want):
    for v in res["violations"]:
        if v["class"] == want["class"] and v["signature"] == want["signature"]:
            return v
    if want["class"] == "harness-crash" and res["violations"]:
        # memory corruption shows up as a crash in one process and as a wrong answer in the next:
        # any violation on the same case confirms it
        v = dict(res["violations"][0])
        v["message"] = "(crashed in the first execution) " + v["message"]
        return dict(v, **{"class": "harness-crash", "signature": want["signature"]})
    return None


def _try_case(engine, prop, case, want, timeout=300):
    st, val = run_one_forked(lambda c: engine.run(prop, c), case, timeout=timeout)
    if st == "ok":
        return _same_violation(val, want)
    if st in ("crash", "timeout") and want["class"] == "harness-crash":
        return want
    return None


def _shrink_iter(engine, prop, case, want):
    try:
        return engine.shrink(prop, case, want)
    except TypeError:
        return engine.shrink(prop, case)


def minimise(engine, prop, case, want, budget_s=120):
    """Greedy: keep applying the first shrink candidate that still shows the same violation."""
    t0 = time.time()
    steps = 0
    improved = True
    while improved and time.time() - t0 < budget_s:
        improved = False
        for cand in _shrink_iter(engine, prop, case, want):
            if time.time() - t0 > budget_s:
                break
            v = _try_case(engine, prop, cand, want)
            if v is not None:
                case, want = cand, v
                steps += 1
                improved = True
                break
    return case, want, steps


def write_replay(prop, engine, seed, index, case, v, tag="min"):
    os.makedirs(REPLAYS, exist_ok=True)
    body = {"property": prop, "engine": engine.name, "class": v["class"], "signature": v["signature"],
            "message": v["message"], "seed": seed, "case_index": index, "case": case}
    if sys.flags.optimize:
        body["python_optimize"] = True  # found under `python -O`: the replay has to run that way too
    name = "%s-%s.json" % (prop, digest(jdump(body))[:12])
    path = os.path.join(REPLAYS, name)
    with open(path, "w") as f:
        json.dump(body, f, indent=1, sort_keys=True, default=_json_default)
        f.write("\n")
    return path


def replay_fresh(path, timeout=300):
    """Replay in a fresh interpreter; returns (reproduced, output)."""
    cmd = [os.path.join(VERIF, "vcheck"), "replay", path]
    env = dict(os.environ)
    env["VERIF_QUIET_BUILD"] = "1"
    env.pop("VERIF_SUBPASS", None)
    try:
        r = subprocess.run(cmd, env=env, capture_output=True, text=True, timeout=timeout)
    except subprocess.TimeoutExpired:
        return False, "replay timed out"
    return r.returncode == 1 and "REPRODUCED" in r.stdout, r.stdout + r.stderr


def load_known():
    try:
        with open(KNOWN) as f:
            return json.load(f)["findings"]
    except FileNotFoundError:
        return []


def match_known(prop, v):
    for k in load_known():
        if k.get("status") != "known" or k["property"] != prop:
            continue
        if k["class"] == v["class"] and k["signature"] == v["signature"]:
            return k
    return None


# ------------------------------------------------------------------------------------------------
# the check


def run_check(engine, prop, tier, seed, jobs, cases=None, budget_s=None, quiet=False):
    t0 = time.time()
    cfg = dict(engine.tiers(prop)[tier])
    if cases:
        cfg["cases"] = cases
    if budget_s:
        cfg["budget_s"] = budget_s
    per = cfg["per_batch"]
    batches = [(engine, prop, seed, tier, s, min(per, cfg["cases"] - s)) for s in range(0, cfg["cases"], per)]
    jobs = max(1, jobs // getattr(engine, "jobs_divisor", 1))
    deadline = t0 + cfg["budget_s"]
    results = forkmap(_run_batch, batches, jobs, timeout=cfg.get("batch_timeout", 300), deadline=deadline)

    stats = Counter()
    shapes = {}
    digests = []
    found = []
    samples = []
    ncases = nontrivial = 0
    harness_errors = []
    crashed_batches = []
    skipped = 0
    for b, (st, val) in zip(batches, results):
        if st == "ok":
            ncases += val["cases"]
            nontrivial += val["nontrivial"]
            stats.merge(val["stats"])
            for k, n in val["shapes"].items():
                shapes[k] = shapes.get(k, 0) + n
            digests.extend(val["digests"])
            found.extend(val["violations"])
            if len(samples) < 4:
                samples.extend(val["samples"])
        elif st == "skipped":
            skipped += 1
        elif st == "exc":
            harness_errors.append("batch %d..%d raised:\n%s" % (b[4], b[4] + b[5], val))
        else:
            crashed_batches.append((b, st, val))

    # a crashed / hung batch: find the case, it is a violation candidate of class harness-crash
    for b, st, val in crashed_batches[:3]:
        located = False
        for i in range(b[4], b[4] + b[5]):
            case = engine.gen(prop, case_rng(prop, seed, i), tier)
            st1, val1 = run_one_forked(lambda c: engine.run(prop, c), case, timeout=120)
            if st1 in ("crash", "timeout"):
                found.append({"index": i, "case": case, "violation": violation(
                    "harness-crash", "whatshap code %s while executing the case: %s" % (st1, val1),
                    "crash")})
                located = True
                break
            if st1 == "exc":
                harness_errors.append(val1)
                located = True
                break
        if not located:
            harness_errors.append("batch %d..%d %s (%s) but no single case reproduces it" % (b[4], b[4] + b[5], st, val))

    run_digest = digest(sorted(digests))

    # regression corpus: minimised cases of repaired defects and of seeded changes; each must hold on this tree
    regress_dir = os.path.join(VERIF, "regress", prop)
    regress_files = sorted(f for f in os.listdir(regress_dir) if f.endswith(".json")) if os.path.isdir(regress_dir) else []
    if regress_files:
        bodies = []
        for f in regress_files:
            with open(os.path.join(regress_dir, f)) as fh:
                bodies.append(json.load(fh))
        rres = forkmap(lambda b: engine.run(prop, b["case"]), bodies, jobs, timeout=600)
        for f, b, (st, val) in zip(regress_files, bodies, rres):
            stats.inc("regression_cases_replayed")
            if st == "ok":
                digests.append(("regress:" + f, val["log_digest"]))
                for v in val["violations"][:1]:
                    found.append({"index": -1, "case": b["case"], "violation": v})
                    stats.inc("regression_cases_failing")
            elif st in ("crash", "timeout"):
                found.append({"index": -1, "case": b["case"], "violation": violation(
                    "harness-crash", "whatshap code %s while executing regression case %s: %s" % (st, f, val), "crash")})
            else:
                harness_errors.append("regression case %s raised in the harness:\n%s" % (f, val))
        run_digest = digest(sorted(digests, key=lambda t: str(t[0])))

    # group, minimise, replay
    groups = {}
    for f in found:
        key = (f["violation"]["class"], f["violation"]["signature"])
        groups.setdefault(key, []).append(f)
    reported = []
    known_lines = []
    unreproducible = []
    for key in sorted(groups)[:6]:
        f = min(groups[key], key=lambda f: (len(jdump(f["case"])), f["index"]))
        case, v, steps = minimise(engine, prop, f["case"], f["violation"], budget_s=cfg.get("min_budget_s", 90))
        path = write_replay(prop, engine, seed, f["index"], case, v)
        ok, out = replay_fresh(path)
        if not ok:
            # try the un-minimised one
            path0 = write_replay(prop, engine, seed, f["index"], f["case"], f["violation"], tag="orig")
            ok0, out0 = replay_fresh(path0)
            if ok0:
                path, v, ok = path0, f["violation"], True
            else:
                unreproducible.append((key, path, out[-2000:]))
                continue
        k = match_known(prop, v)
        if k:
            known_lines.append("KNOWN-FINDING: property=%s %s [%s] replay=%s" % (prop, k["what"], v["signature"], path))
        else:
            reported.append((v, path, len(groups[key]), steps))

    wall = time.time() - t0
    desc = engine.describe(prop)
    ev = {
        "property_id": prop,
        "tier": tier,
        "seed": seed,
        "level": "exploration",
        "coverage": {
            "evaluations": ncases,
            "distinct_nontrivial": len(shapes),
            "rule": desc.get("rule", ""),
            "samples": samples[:4] or ["(no case completed)"],
            "nontrivial_cases": nontrivial,
            "cases_per_hour": int(ncases / max(wall, 1e-9) * 3600),
            "counters": dict(sorted(stats.items())),
            "run_digest": run_digest,
            "batches_skipped_at_deadline": skipped,
            "components": desc.get("real_vs_stub", {}),
            "jobs": jobs,
        },
        "assumptions": desc.get("assumptions", []),
        "wall_s": round(wall, 2),
        "violations": len(reported),
        "known_findings_seen": len(known_lines),
    }
    extra = {}
    if hasattr(engine, "evidence_extra"):
        try:
            extra = engine.evidence_extra(prop, stats, shapes)
        except TypeError:
            extra = engine.evidence_extra(prop, stats)
    ev["coverage"].update(extra)
    os.makedirs(EVIDENCE, exist_ok=True)
    if os.environ.get("VERIF_SUBPASS"):
        ev["coverage"]["subpass"] = os.environ["VERIF_SUBPASS"]
    with open(os.path.join(EVIDENCE, prop + (".subpass" if os.environ.get("VERIF_SUBPASS") else "") + ".json"), "w") as f:
        json.dump(ev, f, indent=1, sort_keys=True, default=_json_default)
        f.write("\n")

    if not quiet:
        print("[%s %s seed=%d] cases=%d nontrivial=%d distinct=%d wall=%.1fs digest=%s" % (
            prop, tier, seed, ncases, nontrivial, len(shapes), wall, run_digest[:12]))
    for line in known_lines:
        print(line)
    for v, path, n, steps in reported:
        print("violation class=%s signature=%s occurrences=%d shrink_steps=%d\n  %s" % (
            v["class"], v["signature"], n, steps, v["message"]))
        print("VIOLATION property=%s replay=%s" % (prop, path))
    if reported:
        return 1
    if harness_errors or unreproducible:
        for e in harness_errors[:3]:
            print("HARNESS-ERROR: " + e, file=sys.stderr)
        for key, path, out in unreproducible:
            print("HARNESS-ERROR: failure %s did not reproduce on replay of %s\n%s" % (key, path, out), file=sys.stderr)
        return 2
    if ncases == 0:
        print("HARNESS-ERROR: nothing evaluated", file=sys.stderr)
        return 2
    need = engine.required_reach(prop, tier) if hasattr(engine, "required_reach") else {}
    for k, n in need.items():
        if stats.get(k, 0) < n:
            print("HARNESS-ERROR: reach counter %s=%d below required %d: nothing evaluated" % (k, stats.get(k, 0), n), file=sys.stderr)
            return 2
    for k in (engine.forbidden_reach(prop, tier) if hasattr(engine, "forbidden_reach") else []):
        if stats.get(k, 0):
            detail = {kk: v for kk, v in stats.items() if kk.startswith(k + ":")}
            print("HARNESS-ERROR: counter %s=%d must be 0 %s" % (k, stats[k], detail), file=sys.stderr)
            return 2
    return 0


def run_replay(engine, path):
    with open(path) as f:
        body = json.load(f)
    prop = body["property"]
    st, val = run_one_forked(lambda c: engine.run(prop, c), body["case"], timeout=280)
    want = {"class": body["class"], "signature": body["signature"]}
    if st in ("crash", "timeout"):
        if body["class"] == "harness-crash":
            print("REPRODUCED property=%s class=harness-crash: %s" % (prop, val))
            return 1
        print("replay %s: %s" % (st, val))
        return 2
    if st == "exc":
        print("replay raised in harness:\n" + val)
        return 2
    v = _same_violation(val, dict(want, **{"class": body["class"]}))
    if v:
        print("REPRODUCED property=%s class=%s signature=%s\n  %s" % (prop, v["class"], v["signature"], v["message"]))
        print("log_digest=%s" % val["log_digest"])
        return 1
    if val["violations"]:
        print("different violation(s) on replay: %s" % [(x["class"], x["signature"]) for x in val["violations"]])
        return 3
    print("no violation on replay; log_digest=%s" % val["log_digest"])
    return 0
