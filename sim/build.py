"""
Materialise /repo's *current working tree* in a scratch directory and build it there (DESIGN §3.5).

Checks never import /repo in place. The scratch lives under /dev/shm (fallback: $TMPDIR), is keyed by
a hash over every source file, and is disposable: if it is missing it is rebuilt.  When only Python
files differ from an existing scratch, the compiled extension modules of that scratch are reused
(they are keyed by a second hash over the native sources only), so a Python-only edit costs ~1 s.
"""

import fcntl
import json
import hashlib
import os
import shutil
import subprocess
import sys
import time

REPO = os.environ.get("VERIF_REPO", "/repo")
PY = "/venv/bin/python"
KEEP = 12  # scratch directories kept (least recently used are deleted)

NATIVE_SUFFIXES = (".pyx", ".pxd", ".cpp", ".h", ".hpp", ".c")
SKIP_DIRS = {".git", "build", "dist", "doc", "logo", "misc", "__pycache__", ".pytest_cache",
             "whatshap.egg-info", ".tox", ".eggs"}


def scratch_root():
    for base in ("/dev/shm", os.environ.get("TMPDIR", "/tmp")):
        if os.path.isdir(base) and os.access(base, os.W_OK):
            root = os.path.join(base, "whatshap-verif-%d" % os.getuid())
            os.makedirs(root, exist_ok=True)
            return root
    raise RuntimeError("no writable scratch location")


def _generated_cpp(path):
    """whatshap/**/*.cpp are Cython outputs (git-ignored); they are regenerated, never copied."""
    rel = os.path.relpath(path, REPO)
    return rel.startswith("whatshap" + os.sep) and rel.endswith(".cpp")


def source_files():
    out = []
    for dirpath, dirnames, filenames in os.walk(REPO):
        rel = os.path.relpath(dirpath, REPO)
        dirnames[:] = sorted(d for d in dirnames if d not in SKIP_DIRS)
        if rel == "tests":
            dirnames[:] = [d for d in dirnames if d == "data"]
        for fn in sorted(filenames):
            p = os.path.join(dirpath, fn)
            if fn.endswith((".so", ".pyc", ".o")) or _generated_cpp(p):
                continue
            if rel.startswith("tests"):
                # test inputs are data for nodesim; test code is irrelevant
                if not rel.startswith(os.path.join("tests", "data")):
                    continue
            out.append(p)
    return out


def tree_keys():
    h_all = hashlib.sha256()
    h_nat = hashlib.sha256()
    for p in source_files():
        rel = os.path.relpath(p, REPO)
        if rel.startswith(os.path.join("tests", "data")):
            st = os.stat(p)
            digest = ("%s:%d:%d" % (rel, st.st_size, int(st.st_mtime))).encode()
        else:
            with open(p, "rb") as f:
                digest = rel.encode() + b"\0" + hashlib.sha256(f.read()).digest()
        h_all.update(digest)
        if p.endswith(NATIVE_SUFFIXES) or os.path.basename(p) in ("setup.py", "pyproject.toml"):
            h_nat.update(digest)
    return h_all.hexdigest()[:16], h_nat.hexdigest()[:16]


def module_keys():
    """{'whatshap/core': key, ...}: one key per Cython module = hash(all native sources it may depend on + its .pyx)"""
    h0 = hashlib.sha256()
    pyx = []
    for p in source_files():
        rel = os.path.relpath(p, REPO)
        if p.endswith(".pyx"):
            pyx.append(p)
        elif p.endswith(NATIVE_SUFFIXES) or rel in ("setup.py", "pyproject.toml"):
            with open(p, "rb") as f:
                h0.update(rel.encode() + b"\0" + hashlib.sha256(f.read()).digest())
    base = h0.digest()
    out = {}
    for p in pyx:
        with open(p, "rb") as f:
            out[os.path.relpath(p, REPO)[:-4]] = hashlib.sha256(base + f.read()).hexdigest()[:16]
    return out


def _so_files(d):
    out = []
    for dirpath, _, filenames in os.walk(os.path.join(d, "whatshap")):
        for fn in filenames:
            if fn.endswith(".so"):
                out.append(os.path.join(dirpath, fn))
    return sorted(out)


EXPECTED_SO = 6


def _copy_tree(dst):
    for p in source_files():
        rel = os.path.relpath(p, REPO)
        q = os.path.join(dst, rel)
        os.makedirs(os.path.dirname(q), exist_ok=True)
        shutil.copy2(p, q)
    vf = os.path.join(dst, "whatshap", "_version.py")
    if not os.path.exists(vf):
        with open(vf, "w") as f:
            f.write("version = __version__ = '0+verif'\n")


_DRIVER = r"""
import sys, runpy
from concurrent.futures import ThreadPoolExecutor
try:
    from setuptools._distutils import ccompiler as _cc
except ImportError:
    from distutils import ccompiler as _cc

def _parallel_compile(self, sources, output_dir=None, macros=None, include_dirs=None, debug=0,
                      extra_preargs=None, extra_postargs=None, depends=None):
    macros, objects, extra_postargs, pp_opts, build = self._setup_compile(
        output_dir, macros, include_dirs, sources, depends, extra_postargs)
    cc_args = self._get_cc_args(pp_opts, debug, extra_preargs)

    def one(obj):
        try:
            src, ext = build[obj]
        except KeyError:
            return
        self._compile(obj, src, ext, cc_args, extra_postargs, pp_opts)

    with ThreadPoolExecutor(max_workers=%d) as ex:
        list(ex.map(one, objects))
    return objects

_cc.CCompiler.compile = _parallel_compile
sys.argv = ["setup.py"] + sys.argv[1:]
runpy.run_path("setup.py", run_name="__main__")
"""


def _compile(dst, log):
    env = dict(os.environ)
    env["SETUPTOOLS_SCM_PRETEND_VERSION"] = "0.0.verif"
    env.pop("PYTHONPATH", None)
    ncpu = os.cpu_count() or 4
    drv = os.path.join(dst, "_verif_build_driver.py")
    with open(drv, "w") as f:
        f.write(_DRIVER % ncpu)
    cmd = [PY, drv, "build_ext", "--inplace", "-j", "6"]
    with open(log, "w") as lf:
        r = subprocess.run(cmd, cwd=dst, env=env, stdout=lf, stderr=subprocess.STDOUT)
    try:
        os.unlink(drv)
    except OSError:
        pass
    return r.returncode == 0


class BuildError(Exception):
    pass


def ensure_built(verbose=True):
    """Return the path of a scratch directory holding the built current working tree of /repo."""
    root = scratch_root()
    lock = open(os.path.join(root, ".lock"), "w")
    fcntl.flock(lock, fcntl.LOCK_EX)
    try:
        key_all, key_nat = tree_keys()
        dst = os.path.join(root, "t-" + key_all)
        stamp = os.path.join(dst, ".verif-built")
        if os.path.exists(stamp) and len(_so_files(dst)) >= EXPECTED_SO:
            os.utime(stamp)
            return dst
        t0 = time.time()
        shutil.rmtree(dst, ignore_errors=True)
        os.makedirs(dst)
        _copy_tree(dst)
        mkeys = module_keys()
        have = set()
        for name in sorted(os.listdir(root)):
            d = os.path.join(root, name)
            st = os.path.join(d, ".verif-built")
            if not (name.startswith("t-") and d != dst and os.path.exists(st)):
                continue
            try:
                dkeys = json.load(open(st))
            except (OSError, ValueError):
                continue
            for mod, key in mkeys.items():
                if mod in have or dkeys.get(mod) != key:
                    continue
                sos = [x for x in _so_files(d) if os.path.relpath(x, d).startswith(mod + ".")]
                cpp = os.path.join(d, mod + ".cpp")
                if len(sos) == 1 and os.path.exists(cpp):
                    shutil.copy2(cpp, os.path.join(dst, mod + ".cpp"))
                    shutil.copy2(sos[0], os.path.join(dst, os.path.relpath(sos[0], d)))
                    have.add(mod)
        now = time.time()
        for mod in have:
            os.utime(os.path.join(dst, mod + ".cpp"), (now, now))
        for so in _so_files(dst):
            os.utime(so, (now + 1, now + 1))
        if len(have) == len(mkeys) and len(_so_files(dst)) >= EXPECTED_SO:
            how = "reused all compiled modules"
        else:
            log = os.path.join(dst, "build.log")
            if not _compile(dst, log) or len(_so_files(dst)) < EXPECTED_SO:
                tail = ""
                try:
                    tail = "".join(open(log).readlines()[-40:])
                except OSError:
                    pass
                keep = os.path.join(root, "last-failed-build.log")
                try:
                    shutil.copy(log, keep)
                except OSError:
                    pass
                shutil.rmtree(dst, ignore_errors=True)
                raise BuildError("building /repo's working tree failed:\n" + tail)
            shutil.rmtree(os.path.join(dst, "build"), ignore_errors=True)
            how = "compiled %d of %d modules" % (len(mkeys) - len(have), len(mkeys))
        with open(stamp, "w") as f:
            json.dump(mkeys, f)
        # prune
        olds = []
        for name in os.listdir(root):
            d = os.path.join(root, name)
            if name.startswith("t-") and d != dst:
                st = os.path.join(d, ".verif-built")
                olds.append((os.path.getmtime(st) if os.path.exists(st) else 0, d))
        olds.sort(reverse=True)
        for _, d in olds[KEEP - 1:]:
            shutil.rmtree(d, ignore_errors=True)
        if verbose:
            print("[build] %s in %.1fs -> %s" % (how, time.time() - t0, dst), file=sys.stderr)
        return dst
    finally:
        fcntl.flock(lock, fcntl.LOCK_UN)
        lock.close()


def activate(scratch):
    """Make `import whatshap` resolve to the scratch build in this process and its children."""
    sys.path.insert(0, scratch)
    os.environ["PYTHONPATH"] = scratch
    for m in list(sys.modules):
        if m == "whatshap" or m.startswith("whatshap."):
            raise RuntimeError("whatshap imported before activate()")
    import whatshap  # noqa
    here = os.path.realpath(os.path.dirname(whatshap.__file__))
    if not here.startswith(os.path.realpath(scratch) + os.sep):
        raise RuntimeError("whatshap resolved to %s, not to the scratch build %s" % (here, scratch))
    return scratch


if __name__ == "__main__":
    print(ensure_built())
