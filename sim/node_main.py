"""
One simulated runtime node (DESIGN §4 C16): a fresh interpreter with its own hash seed that
executes a list of scenarios, each in a forked child (so every execution starts from the state of
a freshly started process with this hash seed), under the node's drawn configuration:
worker/compression thread counts, SimPool schedule, SimClock script, dirty-directory repetition.

Usage: python -m sim.node_main <job.json>     (PYTHONPATH = <scratch build>:/verif)
"""

import gzip
import hashlib
import json
import os
import sys
import traceback


def _sub(arg, mapping):
    out = arg
    for k, v in mapping.items():
        out = out.replace("{" + k + "}", str(v))
    return out


def expand_argv(argv, node_dir, workdir, cfg, outputs):
    """placeholders: {data} {w<i>} {threads} {othreads} {out:NAME}"""
    res = []
    for a in argv:
        while "{out:" in a:
            i = a.index("{out:")
            j = a.index("}", i)
            name = a[i + 5:j]
            path = os.path.join(workdir, name)
            outputs[name] = path
            a = a[:i] + path + a[j + 1:]
        a = a.replace("{data}", os.path.join(node_dir, "data"))
        a = a.replace("{threads}", str(cfg.get("threads", 1))).replace("{othreads}", str(cfg.get("othreads", 1)))
        if "{w" in a:
            i = a.index("{w")
            j = a.index("}", i)
            a = a[:i] + os.path.join(node_dir, a[i + 1:j]) + a[j + 1:]
        res.append(a)
    return res


# ------------------------------------------------------------------------------------------------
# normalisation of outputs (the comparison is record-for-record, apart from the recorded command line)


def kind_of(name):
    n = name.lower()
    for ext, k in ((".vcf.gz", "vcf"), (".vcf", "vcf"), (".bcf", "vcf"), (".bam", "bam"), (".cram", "bam"), (".sam", "bam")):
        if n.endswith(ext):
            return k
    return "text"


def _scrub(text, node_dir):
    return text.replace(node_dir, "<NODE>")


def norm_vcf(path, node_dir):
    import pysam

    with open(path, "rb") as f:
        head = f.read(4)
    lines = None
    if head[:2] != b"\x1f\x8b" and head[:3] != b"BCF":
        with open(path, "r", errors="replace") as f:
            lines = f.read().split("\n")
    elif head[:2] == b"\x1f\x8b":
        try:
            with gzip.open(path, "rb") as f:
                raw = f.read()
            # a BCF file is BGZF-compressed binary: leave it to htslib
            lines = None if raw[:3] == b"BCF" else raw.decode("utf-8", "replace").split("\n")
        except Exception:
            lines = None
    if lines is None:
        pysam.set_verbosity(0)
        with pysam.VariantFile(path) as vf:
            lines = str(vf.header).split("\n")
            for rec in vf:
                lines.append(str(rec).rstrip("\n"))
    meta = sorted(l for l in lines if l.startswith("##") and not l.startswith("##commandline=") and not l.startswith("##fileDate="))
    body = [l for l in lines if l and not l.startswith("##")]
    return _scrub("\n".join(["# header lines (multiset)"] + meta + ["# records"] + body) + "\n", node_dir)


def norm_bam(path, node_dir):
    import pysam

    pysam.set_verbosity(0)
    out = []
    with pysam.AlignmentFile(path, check_sq=False) as af:
        hd = af.header.to_dict()
        for pg in hd.get("PG", []):
            pg.pop("CL", None)
        out.append(json.dumps(hd, sort_keys=True))
        for a in af.fetch(until_eof=True):
            out.append(a.to_string())
    return _scrub("\n".join(out) + "\n", node_dir)


def norm_text(path, node_dir):
    with open(path, "rb") as f:
        data = f.read()
    if data[:2] == b"\x1f\x8b":
        try:
            data = gzip.decompress(data)
        except Exception:
            pass
    return _scrub(data.decode("latin-1"), node_dir)


def normalise(path, kind, node_dir):
    if not os.path.exists(path):
        return None
    try:
        if kind == "vcf":
            return norm_vcf(path, node_dir)
        if kind == "bam":
            return norm_bam(path, node_dir)
        return norm_text(path, node_dir)
    except Exception as e:
        return "UNREADABLE OUTPUT (%s: %s)\n" % (type(e).__name__, e) + hashlib.sha256(open(path, "rb").read()).hexdigest()


# ------------------------------------------------------------------------------------------------


def run_scenario(job, sc, node_dir):
    """executed in a forked child; writes <workdir>/result.json"""
    from sim import seams

    cfg = sc["config"]
    workdir = os.path.join(node_dir, "s%03d" % sc["idx"])
    os.makedirs(workdir, exist_ok=True)
    os.chdir(workdir)
    outputs = {}
    argv = expand_argv(sc["argv"], node_dir, workdir, cfg, outputs)
    result = {"idx": sc["idx"], "name": sc["name"], "runs": []}

    if cfg.get("repeat") == "dirty":
        # files left by an earlier, different run: stale outputs and stale indexes
        for name, p in outputs.items():
            with open(p, "wb") as f:
                f.write(b"stale output of an earlier run\n" * 50)
            for ext in (".tbi", ".csi", ".bai", ".fai"):
                with open(p + ext, "wb") as f:
                    f.write(b"stale index\n")

    sub = next((a for a in argv if not a.startswith("-")), "")
    if cfg.get("repeat") == "dirty" and sub in ("find_snv_candidates", "learn"):
        # these two build the FASTA index themselves (pyfaidx): an index left by an earlier run on an older version of
        # the reference (older than the FASTA, different line layout) must be rebuilt, not trusted
        for a in argv[1:]:
            if a.endswith((".fasta", ".fa")) and os.path.exists(a) and os.path.exists(a + ".fai"):
                try:
                    lines = open(a + ".fai").read().splitlines()
                    stale = []
                    for ln in lines:
                        f = ln.split("\t")
                        if len(f) >= 5:
                            f[3] = str(int(f[3]) + 10)
                            f[4] = str(int(f[4]) + 10)
                        stale.append("\t".join(f))
                    os.unlink(a + ".fai")
                    with open(a + ".fai", "w") as fh:
                        fh.write("\n".join(stale) + "\n")
                    mt = os.stat(a).st_mtime - 1000
                    os.utime(a + ".fai", (mt, mt))
                    result["stale_input_index"] = True
                except (OSError, ValueError):
                    pass

    # Scratch space is state, not input: by default every execution gets a temporary directory and a home directory of its own
    # (nothing an earlier run cached there can reach it); the env fault {"TMPDIR": "{node}/tmp", "HOME": "{node}/home"} gives
    # all scenarios of a node the same ones, as on a real machine, with whatever earlier runs on other inputs left there.
    own_tmp = os.path.join(workdir, "tmp.own")
    own_home = os.path.join(workdir, "home.own")
    os.makedirs(own_tmp, exist_ok=True)
    os.makedirs(own_home, exist_ok=True)
    os.environ["TMPDIR"] = own_tmp
    os.environ["HOME"] = own_home
    for k in ("XDG_CACHE_HOME", "XDG_CONFIG_HOME", "XDG_DATA_HOME", "TEMP", "TMP"):
        os.environ.pop(k, None)
    import tempfile as _tempfile

    _tempfile.tempdir = None
    for k, v in cfg.get("env", {}).items():
        v = v.replace("{node}", node_dir)
        if k in ("TMPDIR", "HOME"):
            os.makedirs(v, exist_ok=True)
        os.environ[k] = v
    if "TZ" in cfg.get("env", {}):
        import time as _time

        _time.tzset()
    if "TMPDIR" in cfg.get("env", {}):
        import tempfile as _tempfile

        _tempfile.tempdir = None

    # the process-wide PRNG starts from OS entropy in a real run; here from the node's configuration (reference and twin alike)
    import random as _random

    _random.seed("node:%s:%s:%s" % (os.environ.get("PYTHONHASHSEED"), cfg["pool"]["seed"], cfg["clock"]["seed"]))
    try:
        import numpy as _np

        _np.random.seed(abs(hash((os.environ.get("PYTHONHASHSEED"), cfg["pool"]["seed"]))) % (2**32))
    except Exception:
        pass

    import logging
    import whatshap.__main__ as wm

    # "twice": the first execution happens in its own forked child (see main), this is the second one in the same directory
    reps = 1
    pool_stats = None
    clock = None
    for rep in range(reps):
        seams.configure_pool(cfg["pool"]["mode"], cfg["pool"]["script"], cfg["pool"]["seed"])
        seams.install_pool()
        clock = seams.SimClock(cfg["clock"]["script"], cfg["clock"]["seed"], cfg["clock"]["enabled"])
        seams.install_clock(clock)
        # fresh logging state, as in a fresh process
        root = logging.getLogger()
        for h in list(root.handlers):
            root.removeHandler(h)
        so = os.open(os.path.join(workdir, "stdout.bin"), os.O_WRONLY | os.O_CREAT | os.O_TRUNC)
        se = os.open(os.path.join(workdir, "stderr.txt"), os.O_WRONLY | os.O_CREAT | os.O_TRUNC)
        sys.stdout.flush()
        sys.stderr.flush()
        old1, old2 = os.dup(1), os.dup(2)
        os.dup2(so, 1)
        os.dup2(se, 2)
        status = {"exit": 0, "exc": None}
        old_argv = sys.argv
        sys.argv = ["whatshap"] + argv
        try:
            try:
                wm.main(argv)
            except SystemExit as e:
                code = e.code
                status["exit"] = code if isinstance(code, int) else (0 if code is None else 1)
            except BaseException as e:  # noqa
                status["exit"] = 1  # what the interpreter would exit with
                status["exc"] = type(e).__name__
                status["trace"] = traceback.format_exc()[-1500:]
        finally:
            # standard output and error stay redirected until this process ends: what the command has not flushed
            # or closed yet is written at interpreter shutdown, as in a real run
            sys.stdout.flush()
            sys.stderr.flush()
            for fd in (so, se, old1, old2):
                os.close(fd)
            sys.argv = old_argv
        result["runs"].append(status)
        pool_stats = dict(seams.POOL_STATS)
    result["status"] = result["runs"][-1]
    ps = pool_stats or {}
    result["pool"] = {k: ps.get(k, 0) for k in ("pools", "tasks", "reorder-dispatch", "reorder-delivery", "skewed-load", "stalled-worker", "chunking")}
    result["pool_orders"] = [[list(a), list(b)] for a, b in ps.get("orders", [])][:8]
    result["clock"] = {"fired": clock.fired, "covered": clock.covered, "reads": clock.reads}
    result["outputs"] = outputs
    with open(os.path.join(workdir, "status.json"), "w") as f:
        json.dump(result, f)


def collect_outputs(sc, node_dir):
    """in the node process, after the scenario's process has exited (and flushed and closed everything, as a real run does)"""
    workdir = os.path.join(node_dir, "s%03d" % sc["idx"])
    with open(os.path.join(workdir, "status.json")) as f:
        result = json.load(f)
    outputs = result.pop("outputs")
    outs = {}
    if sc.get("stdout"):
        outs["<stdout>"] = normalise(os.path.join(workdir, "stdout.bin"), {"vcf": "vcf", "bam": "bam"}.get(sc["stdout"], "text"), node_dir)
    for name, p in sorted(outputs.items()):
        outs[name] = normalise(p, kind_of(name), node_dir)
    result["digests"] = {k: (None if v is None else hashlib.sha256(v.encode("latin-1", "replace")).hexdigest()) for k, v in outs.items()}
    for k, v in outs.items():
        if v is not None:
            with open(os.path.join(workdir, "norm_" + k.replace("<", "").replace(">", "")), "w", encoding="latin-1", errors="replace") as f:
                f.write(v)
    with open(os.path.join(workdir, "result.json"), "w") as f:
        json.dump(result, f)


def main():
    job = json.load(open(sys.argv[1]))
    node_dir = job["node_dir"]
    # warm imports once; every scenario child inherits them by fork
    import pysam  # noqa
    import whatshap.__main__  # noqa
    import importlib

    for m in ("phase", "polyphase", "polyphasegenetic", "genotype", "haplotag", "haplotagphase", "unphase", "split",
              "stats", "compare", "hapcut2vcf", "find_snv_candidates", "learn"):
        try:
            importlib.import_module("whatshap.cli." + m)
        except Exception:
            pass
    census = {}
    for key, names in job.get("census", {}).items():
        census[key] = list(set(names))
    results = []
    todo = []
    for sc in job["scenarios"]:
        if sc["config"].get("repeat") == "twice":
            todo.append((sc, True))  # first execution: a process of its own, outputs stay in the directory
        todo.append((sc, False))
    for sc, first_pass in todo:
        sys.stdout.flush()
        sys.stderr.flush()
        pid = os.fork()
        if pid == 0:
            code = 0
            try:
                import faulthandler

                faulthandler.enable()
                faulthandler.dump_traceback_later(job.get("timeout", 120), exit=True)
                run_scenario(job, sc, node_dir)
            except BaseException:
                traceback.print_exc()
                os._exit(3)
            # leave like a real run does: normal interpreter shutdown (flushes and closes what the command left open)
            faulthandler.cancel_dump_traceback_later()
            sys.exit(0)
        _, st = os.waitpid(pid, 0)
        rp = os.path.join(node_dir, "s%03d" % sc["idx"], "result.json")
        if os.path.exists(os.path.join(node_dir, "s%03d" % sc["idx"], "status.json")) and not first_pass:
            try:
                collect_outputs(sc, node_dir)
            except Exception:
                traceback.print_exc()
        if first_pass:
            try:
                os.unlink(rp)
            except OSError:
                pass
            continue
        if os.path.exists(rp):
            results.append(json.load(open(rp)))
        else:
            if os.WIFSIGNALED(st):
                why = "killed by signal %d" % os.WTERMSIG(st)
            elif os.WEXITSTATUS(st) == 1:
                why = "timeout (no result within %d s)" % job.get("timeout", 120)
            elif os.WEXITSTATUS(st) == 3:
                why = "harness exception in the scenario runner (see node.log)"
            else:
                why = "exit status %d without a result" % os.WEXITSTATUS(st)
            results.append({"idx": sc["idx"], "name": sc["name"], "node_failure": why})
    with open(os.path.join(node_dir, "results.json"), "w") as f:
        json.dump({"census": census, "results": results, "hashseed": os.environ.get("PYTHONHASHSEED")}, f)


if __name__ == "__main__":
    main()
