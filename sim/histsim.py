"""
The operator (DESIGN §1, §4): a sequential client applies a seeded history of whatshap subcommands
to the evolving files of one generated world; a reference model is advanced in lock-step and the
oracles of C09 / C13 (phase-store machine) and C17 (tag-pipeline machine) are evaluated after
every operation.  All whatshap code runs for real, in-process, from the scratch build.

Case:  {"machine": "store"|"tags", "world": {...explicit...}, "ops": [...], "knobs": {...}}
"""

import copy
import logging
import os
import shutil
import tempfile
import traceback

from . import world as W
from .harness import Engine, EventLog, Counter, violation, digest, call_in_fork, ChildRaised, ChildCrashed

PHASE_TAGS = ("HP", "PS", "PQ")


# ------------------------------------------------------------------------------------------------
# observation helpers


def _missing(v):
    return v is None or v == () or all(x is None or x == "." for x in (v if isinstance(v, tuple) else (v,)))


def raw_records(path):
    """Independent (pysam-level) parse of a VCF into comparable plain data."""
    import pysam

    out = []
    with pysam.VariantFile(path) as vf:
        samples = list(vf.header.samples)
        header_formats = sorted(vf.header.formats.keys())
        for rec in vf:
            fmt = list(rec.format.keys())
            calls = {}
            for s in samples:
                call = rec.samples[s]
                vals = {}
                for k in fmt:
                    if k == "GT":
                        continue
                    try:
                        vals[k] = call[k]
                    except KeyError:
                        vals[k] = None
                gt = None
                phased = None
                if "GT" in fmt:
                    gt = call["GT"]
                    phased = bool(call.phased)
                calls[s] = {"gt": gt, "phased": phased, "vals": vals}
            info = []
            for k in rec.info.keys():
                info.append((k, rec.info[k]))
            out.append({
                "chrom": rec.chrom, "pos": rec.start, "id": rec.id, "ref": rec.ref, "alts": rec.alts,
                "gt_text": {},
                "qual": rec.qual, "filter": sorted(rec.filter.keys()), "info": info, "format": fmt,
                "calls": calls,
            })
    # the GT strings as written (pysam's `phased` flag is true only if every separator is '|')
    try:
        import gzip as _gzip

        with (_gzip.open(path, "rt", errors="replace") if str(path).endswith(".gz") else open(path, "r", errors="replace")) as f:
            k = 0
            for line in f:
                if line.startswith("#"):
                    continue
                cols = line.rstrip("\n").split("\t")
                if k < len(out) and len(cols) > 9:
                    fmt = cols[8].split(":")
                    if "GT" in fmt:
                        gi = fmt.index("GT")
                        for s, col in zip(samples, cols[9:]):
                            parts = col.split(":")
                            out[k]["gt_text"][s] = parts[gi] if gi < len(parts) else "."
                k += 1
    except OSError:
        pass
    return samples, header_formats, out


def gt_statement(call):
    """GT/PS phase statement in the sense of the GT decoder: phased and heterozygous"""
    gt = call["gt"]
    if gt is None or not call["phased"]:
        return False
    return not all(a == gt[0] for a in gt)


def hp_statement(call):
    v = call["vals"].get("HP")
    return not _missing(v)


def decode_with_whatshap(path, only_snvs=False):
    """{(chrom, sample, pos): (block_id, phase tuple)} through VcfReader(phases=True); only_snvs = the view `--only-snvs` has"""
    from whatshap.vcf import VcfReader

    out = {}
    with VcfReader(path, phases=True, only_snvs=only_snvs) as reader:
        for table in reader:
            for s in reader.samples:
                for v, p in zip(table.variants, table.phases_of(s)):
                    if p is not None:
                        out[(table.chromosome, s, v.position)] = (p.block_id, tuple(p.phase))
    return out


class WriterCapture:
    """Records what a run hands to PhasedVcfWriter.write — 'the phase that was written'."""

    def __init__(self):
        self.calls = []
        self._orig = None

    def __enter__(self):
        import whatshap.vcf as V

        cap = self
        self._orig = V.PhasedVcfWriter.write

        def write(wself, chromosome, sample_superreads, sample_components, *a, **kw):
            entry = {"chrom": chromosome, "samples": {}, "tag": wself.tag}
            for s, superreads in sample_superreads.items():
                comps = sample_components[s]
                d = {}
                for variants in zip(*superreads):
                    alleles = tuple(v.allele for v in variants)
                    pos = variants[0].position
                    if all(a in (0, 1) for a in alleles) and pos in comps:
                        d[pos] = (comps[pos] + 1, alleles)
                entry["samples"][s] = d
            cap.calls.append(entry)
            return cap._orig(wself, chromosome, sample_superreads, sample_components, *a, **kw)

        V.PhasedVcfWriter.write = write
        return self

    def __exit__(self, *exc):
        import whatshap.vcf as V

        V.PhasedVcfWriter.write = self._orig


def permute_columns(src, dst, order):
    """the same VCF with its sample columns in the given order (plain text output)"""
    import pysam

    with pysam.VariantFile(src) as vf:
        names = list(vf.header.samples)
        idx = [names.index(x) for x in order if x in names]
        assert sorted(idx) == list(range(len(names)))
        with open(dst, "w") as f:
            for line in str(vf.header).splitlines():
                if line.startswith("#CHROM"):
                    t = line.split("\t")
                    line = "\t".join(t[:9] + [t[9 + j] for j in idx])
                f.write(line + "\n")
            for rec in vf:
                t = str(rec).rstrip("\n").split("\t")
                f.write("\t".join(t[:9] + [t[9 + j] for j in idx]) + "\n")


def eligible_records(records, only_snvs=False):
    """
    indices of the records the phased writer (and the reader) treat as *the* variant of their position:
    has exactly one ALT, passes the --only-snvs filter, and is the first such record at its position
    """
    out = set()
    seen = set()
    for j, r in enumerate(records):
        key = (r["chrom"], r["pos"])
        if not r["alts"] or len(r["alts"]) > 1:
            continue
        if only_snvs and not (len(r["ref"]) == 1 and len(r["alts"][0]) == 1):
            continue
        if key in seen:
            continue
        seen.add(key)
        out.add(j)
    return out


def writable_calls(samples, records, only_snvs=False):
    """
    Which (chrom, sample, pos) can carry a phase statement written by the phased writer: eligible
    record, genotype fully called and heterozygous.
    """
    out = set()
    elig = eligible_records(records, only_snvs)
    for j, r in enumerate(records):
        if j not in elig:
            continue
        for s in samples:
            gt = r["calls"][s]["gt"]
            if gt is None or any(a is None for a in gt):
                continue
            if all(a == gt[0] for a in gt):
                continue
            out.add((r["chrom"], s, r["pos"]))
    return out


# ------------------------------------------------------------------------------------------------
# C13 record-level model


def unphased_model(samples, records):
    """what the records must look like after unphase: phase information removed, nothing else"""
    out = []
    for r in records:
        fmt = [k for k in r["format"] if k not in PHASE_TAGS]
        calls = {}
        for s in samples:
            c = r["calls"][s]
            gt = c["gt"]
            calls[s] = {
                "gt_multiset": None if gt is None else sorted(gt, key=lambda a: (a is None, a if a is not None else -1)),
                "vals": {k: v for k, v in c["vals"].items() if k not in PHASE_TAGS},
            }
        out.append({k: r[k] for k in ("chrom", "pos", "id", "ref", "alts", "qual", "filter", "info")} | {"format": fmt, "calls": calls})
    return out


def _feq(a, b):
    """field equality tolerant of float representation only"""
    if isinstance(a, float) and isinstance(b, float):
        return a == b or abs(a - b) <= 1e-6 * max(abs(a), abs(b))
    if isinstance(a, tuple) and isinstance(b, tuple) and len(a) == len(b):
        return all(_feq(x, y) for x, y in zip(a, b))
    return a == b


def compare_unphased(samples, model, got_records, what):
    """-> list of (class, message, signature)"""
    if len(model) != len(got_records):
        return [("unphase-records", "%s: %d records expected, %d found" % (what, len(model), len(got_records)), "record-count")]
    for m, g in zip(model, got_records):
        where = "%s:%d" % (m["chrom"], m["pos"] + 1)
        for k in ("chrom", "pos", "id", "ref", "alts", "filter"):
            if m[k] != g[k]:
                return [("unphase-changed-field", "%s: %s %s changed from %r to %r" % (what, where, k, m[k], g[k]), "field:" + k)]
        if not _feq(m["qual"], g["qual"]):
            return [("unphase-changed-field", "%s: %s QUAL changed from %r to %r" % (what, where, m["qual"], g["qual"]), "field:qual")]
        if len(m["info"]) != len(g["info"]) or any(a[0] != b[0] or not _feq(a[1], b[1]) for a, b in zip(m["info"], g["info"])):
            return [("unphase-changed-field", "%s: %s INFO changed from %r to %r" % (what, where, m["info"], g["info"]), "field:info")]
        gfmt = g["format"]
        left = [k for k in gfmt if k in PHASE_TAGS]
        if left:
            vals = {s: {k: g["calls"][s]["vals"].get(k) for k in left} for s in samples}
            return [("unphase-tag-left", "%s: %s still carries %s (%r)" % (what, where, ",".join(left), vals), "tag-left:" + ",".join(sorted(left)))]
        if m["format"] != gfmt:
            return [("unphase-changed-field", "%s: %s FORMAT keys changed from %r to %r" % (what, where, m["format"], gfmt), "field:format")]
        for s in samples:
            mc, gc = m["calls"][s], g["calls"][s]
            if (gc["phased"] and gc["gt"] is not None and len(gc["gt"]) > 1) or "|" in g.get("gt_text", {}).get(s, ""):
                return [("unphase-still-phased", "%s: %s sample %s has phased genotype %r (%s)" % (what, where, s, gc["gt"], g.get("gt_text", {}).get(s)), "still-phased")]
            gms = None if gc["gt"] is None else sorted(gc["gt"], key=lambda a: (a is None, a if a is not None else -1))
            if mc["gt_multiset"] != gms:
                return [("unphase-alleles", "%s: %s sample %s allele multiset changed from %r to %r" % (what, where, s, mc["gt_multiset"], gms), "alleles")]
            for k, v in mc["vals"].items():
                if not _feq(v, gc["vals"].get(k)):
                    return [("unphase-changed-field", "%s: %s sample %s %s changed from %r to %r" % (what, where, s, k, v, gc["vals"].get(k)), "field:sample-value")]
    return []


def gt_shape(gt, phased):
    if gt is None:
        return "noGT"
    n = len(gt)
    miss = sum(1 for a in gt if a is None)
    base = {1: "haploid", 2: "diploid", 3: "triploid", 4: "tetraploid"}.get(n, "ploidy%d" % n)
    if miss == n:
        base += "-missing"
    elif miss:
        base += "-partial"
    if phased and n > 1:
        base += "-phased"
    return base


# ------------------------------------------------------------------------------------------------
# world renderings for the store machine


def render_initial(rng, world, prop, knobs):
    """
    Turn the plain core world into one of many legal renderings of the same content.
    Returns the model's initial phase state {(chrom name, sample, pos): (ps, alleles)} and its tag.
    """
    samples = world["samples"]
    cores = [r for r in world["records"] if r.get("core")]
    cname = [c["name"] for c in world["chroms"]]
    state = {}

    # extra per-sample fields and INFO
    extra_fmt = rng.choice([[], [], ["GQ"], ["DP", "GQ"], ["AD", "DP", "GQ", "PL"], ["XS"], ["FT", "GQ"]])
    for r in world["records"]:
        if rng.random() < 0.3:
            r["info"] = rng.choice(["DP=%d" % rng.randrange(5, 90), "AF=0.5;DB", "AC=1;AN=2", "XI=a,b", "DB"])
        if rng.random() < 0.3:
            r["qual"] = rng.choice(["30", "99.5", "0", "1234.56"])
        if rng.random() < 0.1:
            r["filter"] = rng.choice(["q10", "q10;s50", "."])
        if rng.random() < 0.2:
            r["id"] = "rs%d" % rng.randrange(1, 99999)
        if extra_fmt and rng.random() < 0.8:
            for k in extra_fmt:
                r["format"].append(k)
                for s in samples:
                    if k == "GQ":
                        v = str(rng.randrange(0, 99))
                    elif k == "DP":
                        v = str(rng.randrange(1, 60))
                    elif k == "AD":
                        v = "%d,%d" % (rng.randrange(0, 30), rng.randrange(0, 30))
                    elif k == "PL":
                        v = "%d,%d,%d" % (rng.randrange(0, 200), rng.randrange(0, 200), rng.randrange(0, 200))
                    elif k == "XS":
                        v = rng.choice(["foo", "a,b", "."])
                    else:
                        v = rng.choice(["PASS", "lowq", "."])
                    if rng.random() < 0.1 and k != "PL":
                        # (a missing PL makes `phase --distrust-genotypes` raise in GenotypeLikelihoods.as_phred: a
                        # robustness problem of whatshap, but not one that any clause of C09 or C13 speaks about)
                        v = "."
                    r["calls"][s].append(v)

    # unsorted GT rendering of heterozygous calls
    if knobs.get("unsorted_gt"):
        for r in cores:
            for s in samples:
                if r["calls"][s][0] == "0/1" and rng.random() < 0.5:
                    r["calls"][s][0] = "1/0"

    # missing calls
    if knobs.get("missing"):
        for r in cores:
            for s in samples:
                if rng.random() < 0.12:
                    r["calls"][s][0] = rng.choice(["./.", ".", "./.", "0/.", "./1"])

    # pre-existing phase
    pre = knobs.get("prephase")
    if pre:
        by_chrom_sample = {}
        for k, r in enumerate(cores):
            for s in samples:
                if r["calls"][s][0] in ("0/1", "1/0"):
                    by_chrom_sample.setdefault((r["chrom"], s), []).append((k, r))
        pre_samples = [s for s in samples if rng.random() < 0.8] or samples[:1]
        use_pq = rng.random() < 0.3
        for (ci, s), lst in sorted(by_chrom_sample.items()):
            if s not in pre_samples:
                continue
            # split into 1-3 sets, possibly interleaved
            nsets = rng.choice([1, 1, 2, 3]) if not knobs.get("many_sets") else rng.choice([8, 10, 12])
            ids = []
            for j in range(nsets):
                ids.append(rng.choice([None, None, rng.randrange(1, 10**6)]))
            assign = [rng.randrange(nsets) if knobs.get("interleave") else min(nsets - 1, i * nsets // max(1, len(lst))) for i in range(len(lst))]
            firstpos = {}
            for (k, r), a in zip(lst, assign):
                firstpos.setdefault(a, r["pos"] + 1)
            for (k, r), a in zip(lst, assign):
                if rng.random() < 0.15:
                    continue  # leave some unphased
                ps = ids[a] if ids[a] is not None else firstpos[a]
                al = (world["truth"][knobs.get("pre_truth", "main")][s][0][k], world["truth"][knobs.get("pre_truth", "main")][s][1][k])
                if rng.random() < 0.3:
                    al = (al[1], al[0])
                state[(cname[ci], s, r["pos"])] = (ps, al)
        # write it into the records
        for r in cores:
            phased_here = [s for s in samples if (cname[r["chrom"]], s, r["pos"]) in state]
            if not phased_here:
                continue
            tagkey = "PS" if pre == "PS" else "HP"
            r["format"].append(tagkey)
            if use_pq:
                r["format"].append("PQ")
            for s in samples:
                st = state.get((cname[r["chrom"]], s, r["pos"]))
                if st is None:
                    r["calls"][s].append(".")
                    if use_pq:
                        r["calls"][s].append(".")
                    continue
                ps, al = st
                if pre == "PS":
                    r["calls"][s][0] = "%d|%d" % al
                    r["calls"][s].append(str(ps))
                else:
                    gt = r["calls"][s][0]
                    g = [int(x) for x in gt.split("/")]
                    # HP entry i names the haplotype that carries GT allele i
                    r["calls"][s].append(",".join("%d-%d" % (ps, al.index(a) + 1) for a in g))
                if use_pq:
                    r["calls"][s].append(rng.choice(["23", "99.1", "."]))
        if rng.random() < 0.3:
            world["header"].append("##phasing=none")

    # decoy records (not core): multi-ALT, duplicated position, no-ALT; reads carry REF there
    if knobs.get("decoys"):
        for ci, ch in enumerate(world["chroms"]):
            seq = ch["seq"]
            taken = sorted(r["pos"] for r in world["records"] if r["chrom"] == ci)
            for _ in range(rng.choice([1, 2, 3])):
                kind = rng.choice(["multi", "dup", "noalt", "multi"])
                if kind == "dup" and taken:
                    src = rng.choice([r for r in cores if r["chrom"] == ci] or [None])
                    if src is None:
                        continue
                    d = copy.deepcopy(src)
                    d["core"] = False
                    alt = rng.choice([b for b in "ACGT" if b != d["ref"][0] and b != d["alts"][0][0]])
                    d["ref"], d["alts"] = d["ref"][0], [alt]
                    for s in samples:
                        d["calls"][s] = [rng.choice(["0/1", "1/1", "0/0", "0|1", "1|0"])] + ["."] * (len(d["format"]) - 1)
                        # an SNV shadowed by an indel at the same position may belong to the phase set of its neighbours
                        # (it is *the* variant of the position under --only-snvs)
                        if "PS" in d["format"] and len(src["ref"]) != len(src["alts"][0]) and src["calls"][s][0].count("|") == 1:
                            psv = src["calls"][s][src["format"].index("PS")]
                            if psv != ".":
                                d["calls"][s][0] = rng.choice(["0|1", "1|0"])
                                d["calls"][s][d["format"].index("PS")] = psv
                    world["records"].append(d)
                    continue
                for _try in range(20):
                    p = rng.randrange(25, len(seq) - 25)
                    if all(abs(p - q) >= 15 for q in taken):
                        break
                else:
                    continue
                taken.append(p)
                ref = seq[p]
                others = [b for b in "ACGT" if b != ref]
                calls = {}
                if kind == "multi":
                    alts = rng.sample(others, 2)
                    for s in samples:
                        calls[s] = [rng.choice(["1/2", "0/1", "0/2", "1|2", "2|1", "0/0", "./."])]
                else:
                    alts = []
                    for s in samples:
                        calls[s] = [rng.choice(["0/0", "./.", "0|0"])]
                world["records"].append({"chrom": ci, "pos": p, "id": ".", "ref": ref, "alts": alts, "qual": ".",
                                         "filter": "PASS", "info": ".", "format": ["GT"], "calls": calls, "core": False})
    return state


ODD_CALLS = {
    # shape name -> list of renderings (GT text); '|' variants are phased
    "haploid": ["0", "1"],
    "haploid-missing": ["."],
    "diploid-missing": ["./.", ".|."],
    "diploid-partial": ["0/.", "./1", "1|.", ".|0", "./0"],
    "triploid": ["0/0/1", "0/1/1", "1/1/1", "0|1|1", "1|0|1", "1/0/0", "0/1/2", "0|1/1", "1/0|1", "2/1|0"],
    "triploid-partial": ["0/1/.", "./././", "./1/0", "0|.|1", "./././."],
    "tetraploid": ["0/0/1/1", "0|1|0|1", "1/0/1/0", "1|1|0|0", "0/1/1/1", "0|1/0|1", "1/1|0/0"],
    "diploid": ["0/1", "1/0", "0|1", "1|0", "1/1", "0/0", "1|1", "2/1", "2|0"],
    # numeric boundaries: allele indices beyond 15, ploidies beyond 14 (htslib has no such limits)
    "manyalleles": ["17/3", "0|19", "16/16", "21|0", "15/16"],
    "highploidy": ["/".join(["0", "1"] * 8), "|".join(["1", "0"] * 8), "/".join(["0"] * 15), "/".join(["1", "0", "."] * 5)],
}


def render_odd(rng, world, knobs):
    """C13: VCFs of arbitrary call shapes (phase operations are disabled on these worlds)."""
    samples = world["samples"]
    shapes = knobs["shapes"]
    per_sample_shape = {s: rng.choice(shapes) for s in samples} if knobs.get("per_sample") else None
    tagmode = knobs.get("oddtags")
    for r in world["records"]:
        r["core"] = False
        if rng.random() < 0.25 and "multi" in knobs.get("extras", ()):
            others = [b for b in "ACGT" if b != r["ref"][0] and b != r["alts"][0][0]]
            r["alts"] = [r["alts"][0], r["ref"][0] + rng.choice(others) if len(r["ref"]) == 1 and rng.random() < 0.3 else rng.choice(others)]
            if r["alts"][0] == r["alts"][1]:
                r["alts"] = r["alts"][:1]
        nogt = "nogt" in knobs.get("extras", ()) and rng.random() < 0.2
        if nogt:
            # records without GT; some of them nevertheless carry phase tags (legal: any FORMAT key may appear)
            r["format"] = rng.choice([["DP"], ["DP"], ["GQ", "DP"], ["DP", "PS"], ["PS", "DP", "PQ"], ["DP", "HP"], ["PQ"]])
            for s in samples:
                vals = []
                for k in r["format"]:
                    if k == "HP":
                        vals.append(rng.choice(["7-1,7-2", ".", "12-2,12-1"]))
                    elif k == "PQ":
                        vals.append(rng.choice(["10", "45.5", "."]))
                    else:
                        vals.append(str(rng.randrange(1, 50)))
                r["calls"][s] = vals
            continue
        fmt = ["GT"]
        add = []
        if tagmode and rng.random() < 0.7:
            add = rng.choice([["PS"], ["HP"], ["PS", "PQ"], ["HP", "PQ"], ["PQ"], ["DP", "PS"], ["PS", "DP"], ["GQ", "HP", "DP"]])
        elif rng.random() < 0.4:
            add = rng.choice([["DP"], ["GQ"], ["DP", "GQ"]])
        fmt += add
        r["format"] = fmt
        for s in samples:
            shape = per_sample_shape[s] if per_sample_shape else rng.choice(shapes)
            gt = rng.choice(ODD_CALLS[shape])
            if gt.endswith("/"):
                gt = gt.rstrip("/")
            if shape == "manyalleles" and len(r["alts"]) < 22:
                # a site with 22 ALT alleles
                pool = [a + b for a in "ACGT" for b in "ACGT" if a + b != r["ref"][0] * 2]
                r["alts"] = [r["alts"][0]] + [r["ref"][0] + x for x in pool[:21]]
            nall = 1 + len(r["alts"])
            import re as _re

            gt = _re.sub(r"\d+", lambda m: m.group(0) if int(m.group(0)) < nall else str(nall - 1), gt)
            vals = [gt]
            ploidy = len(gt.replace("|", "/").split("/"))
            for k in add:
                if rng.random() < 0.25:
                    vals.append(".")
                elif k == "PS":
                    vals.append(str(rng.randrange(1, 5000)))
                elif k == "HP":
                    ps = rng.randrange(1, 5000)
                    perm = list(range(1, ploidy + 1))
                    rng.shuffle(perm)
                    vals.append(",".join("%d-%d" % (ps, h) for h in perm))
                elif k == "PQ":
                    vals.append(rng.choice(["10", "45.5", "0"]))
                elif k == "DP":
                    vals.append(str(rng.randrange(1, 80)))
                else:
                    vals.append(str(rng.randrange(0, 99)))
            r["calls"][s] = vals
        if rng.random() < 0.3:
            r["info"] = rng.choice(["DP=%d" % rng.randrange(5, 90), "AF=0.5;DB", "XI=a,b", "DB"])
        if rng.random() < 0.3:
            r["qual"] = rng.choice(["30", "99.5", "0"])
    if rng.random() < 0.3:
        world["header"].append("##phasing=partial")
    if tagmode == "header-only":
        world["header"].append('##FORMAT=<ID=PS,Number=1,Type=Integer,Description="Phase set">')
        world["header"].append('##FORMAT=<ID=PQ,Number=1,Type=Float,Description="Phasing quality">')


# ------------------------------------------------------------------------------------------------
# generation of store-machine cases


HEADER_TAIL = [
    '##INFO=<ID=ZQ,Number=1,Type=Float,Description="declared, never used">',
    '##FORMAT=<ID=ZF,Number=1,Type=Integer,Description="declared, never used">',
    '##FILTER=<ID=zlow,Description="declared, never used">',
    '##INFO=<ID=ZS,Number=.,Type=String,Description="declared, never used">',
    '##FORMAT=<ID=ZG,Number=G,Type=Float,Description="declared, never used">',
]


def gen_store_case(rng, prop, tier):
    odd = prop == "C13" and rng.random() < 0.55
    if odd:
        w = W.gen_core(rng, n_chroms=rng.choice([1, 1, 2]), n_samples=rng.choice([1, 2, 3]),
                       length=rng.choice([200, 400]), n_variants=rng.choice([2, 4, 7, 10]), kinds=["snv"])
        shapes = rng.choice([
            ["haploid"], ["haploid", "haploid-missing"], ["triploid"], ["tetraploid"], ["diploid-partial", "diploid"],
            ["diploid-missing", "diploid"], ["triploid-partial", "triploid"], ["diploid"],
            ["haploid", "diploid", "triploid", "tetraploid"], [k for k in ODD_CALLS if k not in ("manyalleles", "highploidy")],
            ["manyalleles", "diploid"], ["highploidy", "diploid"], list(ODD_CALLS),
        ])
        knobs = {"odd": True, "shapes": shapes, "per_sample": rng.random() < 0.4,
                 "oddtags": rng.choice([None, "values", "values", "header-only"]),
                 "extras": rng.choice([[], ["nogt"], ["multi"], ["nogt", "multi"]])}
        render_odd(rng, w, knobs)
        if rng.random() < 0.12:
            knobs["no_contig_lines"] = w["no_contig_lines"] = True
        elif len(w["chroms"]) > 1 and rng.random() < 0.25:
            knobs["omit_contig_lines"] = w["omit_contig_lines"] = [rng.choice(w["chroms"])["name"]]
        if rng.random() < 0.15:
            knobs["initial_gz"] = True
        if knobs.get("oddtags") == "values" and rng.random() < 0.3:
            # phase tags used in records but not declared in the header (partly or wholly)
            knobs["undeclared_formats"] = w["undeclared_formats"] = rng.choice([["PS"], ["PQ"], ["HP"], ["PS", "PQ"], ["HP", "PQ", "PS"]])
            if rng.random() < 0.3:
                w["header"].append('##INFO=<ID=PS,Number=1,Type=Integer,Description="an INFO field that happens to be called PS">')
        n = rng.choice([1, 2, 3])
        ops = [({"op": "unphase", "stdin": True} if rng.random() < 0.2 else {"op": "unphase"}) for _ in range(n)]
        if rng.random() < 0.35:
            knobs["header_tail"] = w["header_tail"] = HEADER_TAIL[:rng.choice([1, 3, 5])]
        return {"machine": "store", "world": W.clean_world(w), "ops": ops, "knobs": knobs, "state0": []}

    trio = rng.random() < 0.18
    if trio:
        # a family: the pedigree path of `phase` (--ped) writes all members of a family through one writer call
        w = W.gen_core(rng, n_samples=rng.choice([3, 3, 4]), first_base_variant=0.15, pos_coincidence=0.4,
                       het_rate=rng.choice([0.5, 0.7, 0.9]))
        W.make_trio(rng, w)
    else:
        w = W.gen_core(rng, first_base_variant=0.15, pos_coincidence=0.4)
    W.add_alt_truth(rng, w, "alt", flip_rate=rng.choice([0.2, 0.5, 0.8]))
    depth = rng.choice([2, 3, 5, 8, 12, 20, 30])
    W.gen_library(rng, w, "L0", truth="main", depth=depth)
    W.gen_library(rng, w, "L1", truth="alt", depth=rng.choice([2, 4, 8, 16]))
    # a library that says nothing about some samples and chromosomes (a re-phase with it must still drop their old phase)
    W.gen_library(rng, w, "L2", truth="main", depth=rng.choice([3, 8]), samples=w["samples"][:1])
    if len(w["chroms"]) > 1:
        w["libs"]["L2"]["reads"] = [r for r in w["libs"]["L2"]["reads"] if r["chrom"] == 0]
    knobs = {
        "unsorted_gt": rng.random() < 0.25,
        "missing": rng.random() < 0.3,
        "prephase": rng.choice([None, None, "PS", "HP"]),
        "pre_truth": rng.choice(["main", "alt"]),
        "interleave": rng.random() < 0.3,
        "many_sets": rng.random() < 0.08,
        "decoys": rng.random() < 0.35,
    }
    if trio:
        knobs["trio"] = True
    if knobs["many_sets"]:
        knobs["interleave"] = True
        knobs["prephase"] = knobs["prephase"] or rng.choice(["PS", "HP"])
    state0 = render_initial(rng, w, prop, knobs)
    if prop == "C13" and rng.random() < 0.1:
        knobs["no_contig_lines"] = w["no_contig_lines"] = True
    elif prop == "C13" and len(w["chroms"]) > 1 and rng.random() < 0.2:
        knobs["omit_contig_lines"] = w["omit_contig_lines"] = [rng.choice(w["chroms"])["name"]]
    if rng.random() < 0.12:
        knobs["initial_gz"] = True
    samples = w["samples"]
    chroms = [c["name"] for c in w["chroms"]]
    n_ops = rng.choice([1, 2, 2, 3, 3, 4, 5, 6])
    if prop == "C13":
        weights = {"phase": 5, "unphase": 5, "from_vcf": 1, "twin": 0}
    else:
        weights = rng.choice([
            {"phase": 6, "unphase": 1, "from_vcf": 2, "twin": 2},
            {"phase": 8, "unphase": 2, "from_vcf": 1, "twin": 1},
            {"phase": 3, "unphase": 1, "from_vcf": 4, "twin": 1},
            {"phase": 3, "unphase": 0, "from_vcf": 1, "twin": 5},
        ])
    ops = []
    for k in range(n_ops):
        names = sorted(weights)
        x = rng.random() * sum(weights.values())
        for name in names:
            x -= weights[name]
            if x <= 0:
                break
        if name == "phase" or name == "twin":
            op = {"op": name, "lib": rng.choice(["L0", "L0", "L1", "L2"]), "noref": rng.random() < 0.15}
            if rng.random() < 0.15:
                op["distrust"] = True
            if rng.random() < 0.25:
                # rarely used paths upstream of the writer
                ex = {}
                if rng.random() < 0.4:
                    ex["algorithm"] = rng.choice(["heuristic", "hapchat"])
                if rng.random() < 0.3:
                    ex["max_coverage"] = rng.choice([2, 5, 8])
                if rng.random() < 0.3:
                    ex["read_merging"] = True
                if rng.random() < 0.3 and not op.get("distrust"):
                    ex["include_homozygous"] = True
                if rng.random() < 0.2:
                    ex["mapping_quality"] = rng.choice([0, 60])
                if ex:
                    op["extra"] = ex
            if rng.random() < 0.12:
                # verbosity is not an input: `whatshap --debug phase ...` must write the same file
                op.setdefault("extra", {})["debug_logging"] = True
            if name == "phase":
                op["tag"] = rng.choice(["PS", "HP"])
                if rng.random() < 0.15:
                    op["only_snvs"] = True
                if rng.random() < 0.2:
                    op["outfmt"] = rng.choice(["vcf.gz", "bcf"])
            if len(samples) > 1 and rng.random() < 0.35:
                op["samples"] = sorted(rng.sample(samples, rng.randrange(1, len(samples))), key=samples.index)
                if rng.random() < 0.3:
                    rng.shuffle(op["samples"])  # --sample B --sample A: an order that is not the column order
            elif len(samples) > 1 and rng.random() < 0.1:
                op["samples"] = list(samples)
                rng.shuffle(op["samples"])  # all samples, named explicitly in another order
            if trio and rng.random() < 0.65:
                ped = {}
                if rng.random() < 0.3:
                    ped["no_genetic"] = True
                if rng.random() < 0.3:
                    ped["recombrate"] = rng.choice([0.01, 50, 1000])
                if "samples" not in op and rng.random() < 0.4:
                    ped["use_ped_samples"] = True
                op["ped"] = ped
            if len(chroms) > 1 and rng.random() < 0.3:
                op["chroms"] = [rng.choice(chroms)]
            ops.append(op)
        elif name == "unphase":
            ops.append({"op": "unphase", "stdin": True} if rng.random() < 0.2 else {"op": "unphase"})
        else:
            op = {"op": "from_vcf", "source": rng.randrange(-1, k), "tag": rng.choice(["PS", "HP"]),
                  "base": rng.choice(["current", "current", "initial-unphased"])}
            if rng.random() < 0.15:
                op["debug"] = True
            if rng.random() < 0.2:
                op["only_snvs"] = True
            elif len(samples) > 1 and rng.random() < 0.35:
                # target samples named explicitly: a subset and/or an order that is not the column order
                op["samples"] = rng.sample(samples, rng.randrange(1, len(samples) + 1))
            if len(samples) > 1 and rng.random() < 0.25:
                op["permute_source"] = True  # the phased VCF lists its samples in another column order than the variant file
            ops.append(op)
    if knobs["many_sets"] and prop == "C09":
        ops.insert(0, {"op": "from_vcf", "source": -1, "tag": rng.choice(["PS", "HP"]), "base": rng.choice(["current", "initial-unphased"])})
    if prop == "C13" and not any(o["op"] == "unphase" for o in ops):
        ops.append({"op": "unphase"})
    if prop == "C13" and rng.random() < 0.5:
        ops.append({"op": "unphase"})
    if rng.random() < 0.25:
        knobs["header_tail"] = w["header_tail"] = HEADER_TAIL[:rng.choice([1, 3, 5])]
    return {"machine": "store", "world": W.clean_world(w), "ops": ops, "knobs": knobs,
            "state0": sorted([list(k) + [v[0], list(v[1])] for k, v in state0.items()])}


# ------------------------------------------------------------------------------------------------
# execution of the store machine


class StoreRun:
    def __init__(self, case, log, stats, workdir):
        self.case = case
        self.world = copy.deepcopy(case["world"])
        self.log = log
        self.stats = stats
        self.dir = workdir
        self.viol = []  # (property, violation)
        self.samples = self.world["samples"]
        self.chroms = [c["name"] for c in self.world["chroms"]]
        self.snap = {}
        self.nfile = 0
        self.odd = bool(case.get("knobs", {}).get("odd"))
        self.snv_view = False

    def add(self, prop, cls, message, signature):
        self.viol.append((prop, violation(cls, message, signature)))
        self.log.add("violation", [prop, cls, signature])

    def newfile(self, stem, ext="vcf"):
        self.nfile += 1
        if ext not in ("vcf", "vcf.gz", "bcf"):
            ext = "vcf"
        return os.path.join(self.dir, "%02d_%s.%s" % (self.nfile, stem, ext))

    # -- set-up
    def setup(self):
        W.write_vcf(self.world, os.path.join(self.dir, "initial.vcf"))
        self.current = os.path.join(self.dir, "initial.vcf")
        if self.case.get("knobs", {}).get("initial_gz"):
            import pysam

            pysam.tabix_compress(self.current, self.current + ".gz", force=True)
            self.current = self.current + ".gz"
            self.stats.inc("initial_file_bgzipped")
        self.snap[-1] = self.current
        self.libs = {}
        if not self.odd:
            W.write_reference(self.world, os.path.join(self.dir, "ref.fa"))
            for lib in self.world["libs"]:
                p = os.path.join(self.dir, lib + ".bam")
                W.write_bam(self.world, lib, p)
                self.libs[lib] = p
        self.model = {}
        for c, s, p, ps, al in self.case.get("state0", []):
            self.model[(c, s, p)] = (ps, tuple(al))
        self.model_tag = self.case.get("knobs", {}).get("prephase") if self.model else None
        # tag of the phase currently stored per (chrom, sample)
        self.tag_of = {}
        for (c, s, p) in self.model:
            self.tag_of[(c, s)] = "PS" if self.model_tag == "PS" else "HP"
        self.baseline_unphased = None
        self.initial_unphased_path = None

    # -- whatshap invocations
    def ped_kwargs(self, op):
        """run_whatshap arguments for a pedigree-mode operation (None: not one), and the samples it targets"""
        if op.get("ped") is None or not self.world.get("ped_text"):
            return None, None
        path = os.path.join(self.dir, "family.ped")
        if not os.path.exists(path):
            with open(path, "w") as f:
                f.write(self.world["ped_text"])
        pedopt = op["ped"]
        kw = {"ped": path}
        if pedopt.get("no_genetic"):
            kw["genetic_haplotyping"] = False
        if "recombrate" in pedopt:
            kw["recombrate"] = pedopt["recombrate"]
        targets = None
        if pedopt.get("use_ped_samples") and not op.get("samples"):
            kw["use_ped_samples"] = True
            targets = W.ped_individuals(self.world["ped_text"])
        return kw, targets

    def _phase(self, inputs, variant_file, out, tag, samples=None, chroms=None, noref=False, only_snvs=False, distrust=False, extra=None, ped=None):
        if ped:
            extra = dict(extra or {}, **ped)
        debug = bool((extra or {}).get("debug_logging"))
        extra = {k: v for k, v in (extra or {}).items() if k != "debug_logging"} or None

        def work():
            if debug:
                # what `whatshap --debug ...` does: root logger at DEBUG (here into a handler that discards)
                logging.disable(logging.NOTSET)
                root = logging.getLogger()
                root.handlers[:] = [logging.NullHandler()]
                root.setLevel(logging.DEBUG)
            return self._phase_here(inputs, variant_file, out, tag, samples, chroms, noref, only_snvs, distrust, extra)

        return call_in_fork(work)

    def _phase_here(self, inputs, variant_file, out, tag, samples=None, chroms=None, noref=False, only_snvs=False, distrust=False, extra=None):
        from whatshap.cli.phase import run_whatshap

        with WriterCapture() as cap:
            run_whatshap(
                phase_input_files=inputs, variant_file=variant_file, output=out,
                reference=False if noref else os.path.join(self.dir, "ref.fa"),
                samples=samples, chromosomes=chroms, tag=tag, write_command_line_header=False, only_snvs=only_snvs,
                distrust_genotypes=distrust, include_homozygous=distrust or bool((extra or {}).get("include_homozygous")),
                **{k: v for k, v in (extra or {}).items() if k != "include_homozygous"},
            )
        written = {}
        for entry in cap.calls:
            for s, d in entry["samples"].items():
                for pos, st in d.items():
                    written[(entry["chrom"], s, pos)] = st
        touched = {(e["chrom"], s) for e in cap.calls for s in e["samples"]}
        return written, touched

    def _unphase(self, src, dst, via_stdin=False):
        def work():
            from whatshap.cli.unphase import run_unphase

            if via_stdin:
                # `whatshap unphase - < file`: the file (plain, bgzipped or BCF) arrives on file descriptor 0
                fd = os.open(src, os.O_RDONLY)
                os.dup2(fd, 0)
                os.close(fd)
            with open(dst, "w") as f:
                run_unphase("-" if via_stdin else src, f)

        call_in_fork(work)

    def guarded(self, what, fn, prop_for_crash, crash_class, rare_options=False):
        """run one whatshap invocation; CommandLineError = rejected by design; anything else = crash"""
        from whatshap.cli import CommandLineError

        try:
            return True, fn()
        except ChildRaised as e:
            if e.is_command_line_error:
                self.stats.inc("op_rejected")
                self.log.add("rejected", e.message.replace(self.dir, "<RUN>")[:80])
                return False, None
            if rare_options:
                self.stats.inc("op_raised_with_rare_options")
                self.stats.inc("op_raised_with_rare_options:%s" % e.type_name)
                self.log.add("raised", e.type_name)
                return False, None
            self.add(prop_for_crash, crash_class, "%s raised %s: %s (in %s)" % (what, e.type_name, e.message, e.site),
                     "%s:%s:%s" % (crash_class, e.type_name, e.site))
            return False, None
        except ChildCrashed as e:
            if rare_options:
                # same policy as for an exception under rarely used options: no output exists, no clause of C09 speaks about it
                # (seen on the unchanged tree: `phase --algorithm heuristic --ped` dies with SIGSEGV on a family with one read)
                self.stats.inc("op_died_with_rare_options")
                self.log.add("died", str(e)[:60])
                return False, None
            self.add(prop_for_crash, crash_class, "%s: the whatshap process died (%s)" % (what, e), "%s:died" % crash_class)
            return False, None
        except CommandLineError as e:
            self.stats.inc("op_rejected")
            self.log.add("rejected", str(e).replace(self.dir, "<RUN>")[:80])
            return False, None
        except Exception as e:
            if rare_options:
                # `phase` raising on an unusual option combination (read merging on multi-sample input, --include-homozygous
                # without --distrust-genotypes, ...) produces no output: no clause of C09 speaks about it. The history ends.
                self.stats.inc("op_raised_with_rare_options")
                self.stats.inc("op_raised_with_rare_options:%s" % type(e).__name__)
                self.log.add("raised", type(e).__name__)
                return False, None
            tb = traceback.format_exc()
            last = [l for l in tb.strip().splitlines() if l.strip().startswith("File")]
            site = last[-1].strip() if last else ""
            site = site.split(", in ")[-1] if ", in " in site else site
            self.add(prop_for_crash, crash_class, "%s raised %s: %s (in %s)" % (what, type(e).__name__, e, site),
                     "%s:%s:%s" % (crash_class, type(e).__name__, site))
            return False, None

    # -- oracles
    def check_phase_output(self, what, out, tag, written, touched, target_samples, target_chroms, prev_model, only_snvs=False):
        """R1, R2, R3 after a phase-like operation"""
        try:
            samples, _, recs = raw_records(out)
        except Exception as e:
            self.add("C09", "output-unreadable", "%s: output cannot be parsed: %s" % (what, e), "output-unreadable")
            return None
        in_samples, _, in_recs = raw_records(self.last_input)
        # did this run change a genotype (--distrust-genotypes, --include-homozygous, hapchat under python -O where the guarding
        # assertion is not executed, ...)?  Then "unphase gives the same records as unphasing the original" (U5) has lost its premise.
        if len(in_recs) == len(recs):
            for a, b in zip(in_recs, recs):
                for smp in in_samples:
                    ga, gb = a["calls"][smp]["gt"], b["calls"].get(smp, {}).get("gt")
                    if ga is not None and gb is not None and None not in ga and None not in gb and sorted(ga) != sorted(gb):
                        if self.baseline_unphased is not False:
                            self.stats.inc("phase_changed_a_genotype")
                        self.baseline_unphased = False
        # a statement is expected where the run handed heterozygous alleles to the writer for *the* record of that
        # position (under --distrust-genotypes the written genotype, not the input GT, decides heterozygosity)
        elig = eligible_records(in_recs, only_snvs)
        elig_pos = {(in_recs[j]["chrom"], in_recs[j]["pos"]) for j in elig}
        has_gt = {(in_recs[j]["chrom"], s, in_recs[j]["pos"]) for j in elig for s in in_samples if in_recs[j]["calls"][s]["gt"] is not None}
        expected = {k: v for k, v in written.items() if (k[0], k[2]) in elig_pos and k in has_gt and len(set(v[1])) > 1}
        self.stats.inc("written_statements", len(expected))
        targets = {(c, s) for c in target_chroms for s in target_samples}
        # R2: statements present in the raw output for target samples
        elig = eligible_records(recs, only_snvs)
        for j, r in enumerate(recs):
            first = j in elig
            for s in samples:
                if (r["chrom"], s) not in targets:
                    continue
                call = r["calls"][s]
                k3 = (r["chrom"], s, r["pos"])
                g, h = gt_statement(call), hp_statement(call)
                new_stmt = g if tag == "PS" else h
                other_stmt = h if tag == "PS" else g
                where = "%s:%d sample %s" % (r["chrom"], r["pos"] + 1, s)
                if other_stmt:
                    old = prev_model.get(k3)
                    self.add("C09", "stale-foreign-tag",
                             "%s (--tag=%s): %s still carries a %s phase statement (%s) that this run did not write%s" % (
                                 what, tag, where, "HP" if tag == "PS" else "GT|PS",
                                 call["vals"].get("HP") if tag == "PS" else call["gt"],
                                 "; it is the phase of the earlier run" if old else ""),
                             "stale-foreign-tag:%s-over-%s" % (tag, "HP" if tag == "PS" else "PS"))
                    return None
                if new_stmt and (not first or k3 not in expected):
                    self.add("C09", "stale-same-tag",
                             "%s (--tag=%s): %s carries a phase statement that this run did not write (GT=%r phased=%r HP=%r)" % (
                                 what, tag, where, call["gt"], call["phased"], call["vals"].get("HP")),
                             "stale-same-tag:%s" % tag)
                    return None
        # R1 + R3 through whatshap's own decoder
        try:
            dec = decode_with_whatshap(out, only_snvs=only_snvs and getattr(self, "snv_view", False))
        except Exception as e:
            tb = traceback.format_exc()
            site = [l for l in tb.strip().splitlines() if l.strip().startswith("File")][-1].split(", in ")[-1]
            self.add("C09", "decode-raised", "%s (--tag=%s): whatshap cannot decode the file it wrote: %s: %s (in %s)" % (
                what, tag, type(e).__name__, e, site), "decode-raised:%s:%s" % (type(e).__name__, site))
            return None
        for k3, st in sorted(expected.items()):
            got = dec.get(k3)
            if got != st:
                self.add("C09", "roundtrip",
                         "%s (--tag=%s): %s:%d sample %s was written as set %d alleles %r but decodes as %r" % (
                             what, tag, k3[0], k3[2] + 1, k3[1], st[0], st[1], got),
                         "roundtrip:%s:%s" % (tag, "lost" if got is None else "set" if got[1] == st[1] else "alleles"))
                return None
        for k3, got in sorted(dec.items()):
            if (k3[0], k3[1]) in targets:
                if k3 not in expected:
                    self.add("C09", "roundtrip-extra",
                             "%s (--tag=%s): %s:%d sample %s decodes as %r but nothing was written there" % (
                                 what, tag, k3[0], k3[2] + 1, k3[1], got), "roundtrip-extra:%s" % tag)
                    return None
            else:
                if prev_model.get(k3) != got:
                    self.add("C09", "isolation",
                             "%s: %s:%d sample %s is not a target of this run but its phase changed from %r to %r" % (
                                 what, k3[0], k3[2] + 1, k3[1], prev_model.get(k3), got), "isolation:changed")
                    return None
        for k3, st in sorted(prev_model.items()):
            if (k3[0], k3[1]) not in targets and k3 not in dec:
                self.add("C09", "isolation", "%s: %s:%d sample %s is not a target of this run but lost its phase %r" % (
                    what, k3[0], k3[2] + 1, k3[1], st), "isolation:lost")
                return None
        self.log.add("decoded", sorted((list(k), [v[0], list(v[1])]) for k, v in dec.items()))
        return dec

    # -- operations
    def enabled_tag(self, tag, target_samples, target_chroms):
        """writing `tag` for the targets must not leave the file with both encodings (user error, not whatshap's)"""
        # whatshap's reader decides the encoding per chromosome: different chromosomes may use different encodings,
        # two samples on the same chromosome may not
        targets = {(c, s) for c in target_chroms for s in target_samples}
        for cs, t in self.tag_of.items():
            if cs not in targets and t != tag and cs[0] in target_chroms:
                return False
        return True

    def op_phase(self, i, op):
        lib = op["lib"]
        if self.odd or lib not in self.libs:
            self.stats.inc("skipped_ops")
            return True
        tsamples = [s for s in (op.get("samples") or self.samples) if s in self.samples]
        tchroms = [c for c in (op.get("chroms") or self.chroms) if c in self.chroms]
        pedkw, pedtargets = self.ped_kwargs(op)
        if pedtargets is not None:
            # --use-ped-samples: the individuals of the PED file are the targets (whatshap rejects the run if one is not in the VCF)
            tsamples = [s for s in self.samples if s in pedtargets]
        if not tsamples or not tchroms:
            self.stats.inc("skipped_ops")
            return True
        tag = op["tag"]
        if not self.enabled_tag(tag, tsamples, tchroms):
            self.stats.inc("skipped_ops_mixed_tag")
            return True
        if op.get("only_snvs"):
            # with --only-snvs a later SNV record at the position of a skipped indel becomes "the" variant of
            # that position; the full-view decoder would then look at a different record than the run did.
            pos = [(r["chrom"], r["pos"]) for r in self.world["records"]]
            if len(pos) != len(set(pos)):
                op = dict(op)
                op.pop("only_snvs")
                self.stats.inc("only_snvs_dropped_duplicate_positions")
        out = self.newfile("phase_%s" % tag, op.get("outfmt", "vcf"))
        if op.get("outfmt", "vcf") != "vcf":
            self.stats.inc("phase_output_" + op["outfmt"])
        self.last_input = self.current
        what = "op %d phase(lib=%s,tag=%s%s%s%s%s)" % (i, lib, tag, ",samples=%s" % ",".join(tsamples) if op.get("samples") else "",
                                                        ",chroms=%s" % ",".join(tchroms) if op.get("chroms") else "",
                                                        ",only_snvs" if op.get("only_snvs") else "",
                                                        ",ped%s" % "".join("+" + k for k in sorted(op["ped"])) if pedkw else "")
        had_phase = any((c, s) in self.tag_of for c in tchroms for s in tsamples)
        ok, res = self.guarded(what, lambda: self._phase([self.libs[lib]], self.current, out, tag,
                                                         samples=op.get("samples") and tsamples, chroms=op.get("chroms") and tchroms,
                                                         noref=op.get("noref", False), only_snvs=op.get("only_snvs", False),
                                                         distrust=op.get("distrust", False), extra=op.get("extra"), ped=pedkw), "C09", "phase-crashed",
                               rare_options=bool({k for k in (op.get("extra") or {}) if k != "debug_logging"} or op.get("distrust")))
        if not ok:
            return False
        written, touched = res
        self.stats.inc("op_phase")
        if pedkw:
            self.stats.inc("phase_ped")
            for k in op["ped"]:
                self.stats.inc("phase_ped_" + k)
            if had_phase:
                self.stats.inc("rephase_ped")
        if op.get("only_snvs"):
            self.stats.inc("phase_only_snvs")
        for k in (op.get("extra") or {}):
            self.stats.inc("phase_opt_" + k)
        if op.get("distrust") or (op.get("extra") or {}).get("include_homozygous"):
            self.stats.inc("phase_distrust_genotypes")
            # genotypes may legitimately have been changed by this run: "same records as unphasing the original"
            # (U5) no longer applies to the rest of the history
            self.baseline_unphased = False
        if had_phase:
            prevtags = {self.tag_of.get((c, s)) for c in tchroms for s in tsamples} - {None}
            self.stats.inc("rephase_same_tag" if prevtags == {tag} else "rephase_other_tag")
        if op.get("samples"):
            self.stats.inc("phase_sample_subset")
        if op.get("chroms"):
            self.stats.inc("phase_chrom_subset")
        prev = dict(self.model)
        dec = self.check_phase_output(what, out, tag, written, touched, tsamples, tchroms, prev, only_snvs=op.get("only_snvs", False))
        if dec is None:
            return False
        for c in tchroms:
            for s in tsamples:
                for k3 in [k for k in self.model if k[0] == c and k[1] == s]:
                    del self.model[k3]
                self.tag_of.pop((c, s), None)
        for k3, st in dec.items():
            if (k3[0], k3[1]) in {(c, s) for c in tchroms for s in tsamples}:
                self.model[k3] = st
                self.tag_of[(k3[0], k3[1])] = tag
        self.current = out
        self.snap[i] = out
        self.log.add("phase", [tag, lib, len(dec)])
        return True

    def op_twin(self, i, op):
        lib = op["lib"]
        if self.odd or lib not in self.libs:
            self.stats.inc("skipped_ops")
            return True
        tsamples = [s for s in (op.get("samples") or self.samples) if s in self.samples]
        tchroms = [c for c in (op.get("chroms") or self.chroms) if c in self.chroms]
        pedkw, pedtargets = self.ped_kwargs(op)
        if pedtargets is not None:
            tsamples = [s for s in self.samples if s in pedtargets]
        if not tsamples or not tchroms:
            self.stats.inc("skipped_ops")
            return True
        # the twin pair is only meaningful if both tags are writable without producing a mixed file
        if not (self.enabled_tag("PS", tsamples, tchroms) and self.enabled_tag("HP", tsamples, tchroms)):
            self.stats.inc("skipped_ops_mixed_tag")
            return True
        decs = {}
        writtens = {}
        self.last_input = self.current
        for tag in ("PS", "HP"):
            out = self.newfile("twin_%s" % tag)
            what = "op %d twin(lib=%s) --tag=%s" % (i, lib, tag)
            ok, res = self.guarded(what, lambda: self._phase([self.libs[lib]], self.current, out, tag,
                                                             samples=op.get("samples") and tsamples, chroms=op.get("chroms") and tchroms,
                                                             noref=op.get("noref", False), distrust=op.get("distrust", False), extra=op.get("extra"), ped=pedkw), "C09", "phase-crashed",
                                   rare_options=bool(op.get("extra") or op.get("distrust")))
            if not ok:
                return False
            written, touched = res
            dec = self.check_phase_output(what, out, tag, written, touched, tsamples, tchroms, dict(self.model))
            if dec is None:
                return False
            decs[tag] = dec
            writtens[tag] = written
        self.stats.inc("op_twin")
        if pedkw:
            self.stats.inc("twin_ped")
        if writtens["PS"] != writtens["HP"]:
            # the two runs did not compute the same phasing (some rarely used algorithms are not repeatable from run to
            # run): that is not a question of encodings. R1-R3 have been checked for each run on its own.
            self.stats.inc("twin_runs_computed_different_phasings")
            self.log.add("twin-different-phasings")
            return True
        if op.get("distrust"):
            self.stats.inc("twin_distrust_genotypes")
        if decs["PS"] != decs["HP"]:
            keys = sorted(set(decs["PS"]) | set(decs["HP"]))
            diff = [k for k in keys if decs["PS"].get(k) != decs["HP"].get(k)]
            k3 = diff[0]
            a, b = decs["PS"].get(k3), decs["HP"].get(k3)
            kind = "presence" if a is None or b is None else "set" if a[0] != b[0] else "alleles"
            gtin = None
            self.add("C09", "ps-hp-differ",
                     "op %d twin(lib=%s): %s:%d sample %s decodes as %r from the --tag=PS output and as %r from the --tag=HP output (%d of %d statements differ)" % (
                         i, lib, k3[0], k3[2] + 1, k3[1], a, b, len(diff), len(keys)), "ps-hp-differ:" + kind)
            return False
        if decs["PS"]:
            self.stats.inc("twin_nonempty")
        self.log.add("twin", len(decs["PS"]))
        return True

    def ensure_initial_unphased(self):
        if self.initial_unphased_path is None:
            p = os.path.join(self.dir, "initial_unphased.vcf")
            self._unphase(self.snap[-1], p)
            self.initial_unphased_path = p
        return self.initial_unphased_path

    def op_from_vcf(self, i, op):
        if self.odd:
            self.stats.inc("skipped_ops")
            return True
        src = op["source"]
        while src not in self.snap and src >= -1:
            src -= 1
        if src not in self.snap:
            self.stats.inc("skipped_ops")
            return True
        source = self.snap[src]
        tag = op["tag"]
        only_snvs = bool(op.get("only_snvs"))
        pos = [(r["chrom"], r["pos"]) for r in self.world["records"]]
        # With --only-snvs an SNV record that follows an indel at the same position is *the* variant of that position for the
        # variant file and for the phase-input reader alike. Observation uses the same view (snv_view); the (chrom, sample, pos)
        # keys of that view do not line up with those of the full view, so such an operation is the last one of its history.
        self.snv_view = only_snvs and len(pos) != len(set(pos))
        if only_snvs:
            self.stats.inc("from_vcf_only_snvs")
        try:
            srcdec = decode_with_whatshap(source, only_snvs=self.snv_view)
        except Exception:
            # the source itself is not decodable (already reported when it was produced, or initial rendering)
            self.stats.inc("skipped_ops")
            return True
        if not srcdec:
            self.stats.inc("from_vcf_empty_source")
        if op.get("base") == "initial-unphased":
            ok, base = self.guarded("unphase(initial)", self.ensure_initial_unphased, "C13", "unphase-crashed")
            if not ok:
                return False
            base_model = {}
            base_tags = {}
        else:
            base = self.current
            base_model = dict(self.model)
            base_tags = dict(self.tag_of)
        tsamples = list(self.samples)
        if op.get("samples") and not only_snvs:
            tsamples = [x for x in op["samples"] if x in self.samples]
            if not tsamples:
                self.stats.inc("skipped_ops")
                return True
            # mixed-file rule (see enabled_tag), against the tags of the base file
            targets = {(c, x) for c in self.chroms for x in tsamples}
            if any(cs not in targets and t != tag for cs, t in base_tags.items()):
                self.stats.inc("skipped_ops_mixed_tag")
                return True
        explicit = tsamples if (op.get("samples") and not only_snvs) else None
        if op.get("permute_source") and len(self.samples) > 1:
            permuted = self.newfile("source_permuted")
            permute_columns(source, permuted, list(reversed(self.samples)))
            source = permuted
            self.stats.inc("from_vcf_source_columns_permuted")
        out = self.newfile("fromvcf_%s" % tag)
        self.last_input = base
        what = "op %d phase_from_vcf(source=state %d%s,tag=%s,base=%s%s)" % (
            i, src, " with columns reversed" if op.get("permute_source") else "", tag, op.get("base", "current"),
            ",samples=%s" % ",".join(explicit) if explicit else "")
        ok, res = self.guarded(what, lambda: self._phase([source], base, out, tag, only_snvs=only_snvs, samples=explicit,
                                                         extra={"debug_logging": True} if op.get("debug") else None), "C09", "phase-crashed")
        if not ok:
            self.snv_view = False
            return False
        written, touched = res
        self.stats.inc("op_from_vcf")
        if self.snv_view:
            base_model = {}  # keys of the full view say nothing here; every sample and chromosome is a target anyway
            self.stats.inc("from_vcf_only_snvs_on_duplicate_positions")
        if explicit:
            self.stats.inc("from_vcf_explicit_samples")
            if explicit != [x for x in self.samples if x in explicit]:
                self.stats.inc("from_vcf_samples_not_in_column_order")
        dec = self.check_phase_output(what, out, tag, written, touched, tsamples, self.chroms, base_model, only_snvs=only_snvs)
        if dec is None:
            self.snv_view = False
            return False
        # R5: every source set with >= 2 shared heterozygous variants reappears
        in_samples, _, in_recs = raw_records(base)
        can = writable_calls(in_samples, in_recs, only_snvs)
        by_set = {}
        for k3, (ps, al) in srcdec.items():
            if ps is None:
                continue  # phased by '|' with a missing PS value: no phase set to reproduce
            if k3 in can and k3[1] in tsamples:
                by_set.setdefault((k3[0], k3[1], ps), []).append((k3[2], al))
        checked = 0
        for (c, s), _ in sorted({(k[0], k[1]): 1 for k in by_set}.items()):
            sets = {ps: sorted(m) for (cc, ss, ps), m in by_set.items() if cc == c and ss == s and len(m) >= 2}
            if not sets:
                continue
            # coverage-cap proviso: number of source sets spanning any variant position <= cap/2
            spans = [(m[0][0], m[-1][0]) for m in sets.values()]
            maxcov = 0
            for ps, m in sets.items():
                for pos, _al in m:
                    cov = sum(1 for a, b in spans if a <= pos <= b)
                    maxcov = max(maxcov, cov)
            if maxcov > 7:
                self.stats.inc("r5_skipped_cap")
                continue
            for ps, m in sorted(sets.items()):
                got = [dec.get((c, s, pos)) for pos, _ in m]
                where = "%s sample %s source set %r (%d variants)" % (c, s, ps, len(m))
                if any(g is None for g in got):
                    missing = [pos + 1 for (pos, _), g in zip(m, got) if g is None]
                    self.add("C09", "reproduce-lost", "%s: %s: variants at %s are unphased in the output" % (what, where, missing), "reproduce-lost")
                    return False
                if len({g[0] for g in got}) != 1:
                    self.add("C09", "reproduce-split", "%s: %s is split over output sets %s" % (what, where, sorted({g[0] for g in got})), "reproduce-split")
                    return False
                members = sorted(k[2] for k, v in dec.items() if k[0] == c and k[1] == s and v[0] == got[0][0])
                if members != [pos for pos, _ in m]:
                    self.add("C09", "reproduce-merged", "%s: %s reappears in an output set with different members %s vs %s" % (
                        what, where, [p + 1 for p in members], [p + 1 for p, _ in m]), "reproduce-merged")
                    return False
                same = all(tuple(g[1]) == tuple(al) for g, (_, al) in zip(got, m))
                swapped = all(tuple(g[1]) == tuple(reversed(al)) for g, (_, al) in zip(got, m))
                if not (same or swapped):
                    self.add("C09", "reproduce-alleles", "%s: %s: haplotypes %r became %r (not equal up to exchanging the two haplotypes)" % (
                        what, where, [al for _, al in m], [g[1] for g in got]), "reproduce-alleles")
                    return False
                checked += 1
        self.stats.inc("r5_sets_checked", checked)
        self.model = dict(dec)
        tset = {(c, x) for c in self.chroms for x in tsamples}
        self.tag_of = {cs: t for cs, t in base_tags.items() if cs not in tset}
        self.tag_of.update({(k[0], k[1]): tag for k in dec if (k[0], k[1]) in tset})
        self.current = out
        self.snap[i] = out
        self.log.add("from_vcf", [tag, src, len(dec), checked])
        if self.snv_view:
            self.snv_view = False
            return False  # end of this history (see above), not a violation
        return True

    def op_unphase(self, i, op):
        out = self.newfile("unphase")
        src = self.current
        what = "op %d unphase" % i
        try:
            in_samples, _, in_recs = raw_records(src)
        except Exception as e:
            raise RuntimeError("harness cannot parse the input of unphase (%s): %s" % (src, e))
        shapes = sorted({gt_shape(r["calls"][s]["gt"], r["calls"][s]["phased"]) for r in in_recs for s in in_samples})
        for sh in shapes:
            self.stats.inc("unphase_input_shape_" + sh)
        if self.world.get("no_contig_lines"):
            self.stats.inc("unphase_input_without_contig_lines")
        if self.world.get("omit_contig_lines"):
            self.stats.inc("unphase_input_with_partial_contig_lines")
        if self.world.get("undeclared_formats"):
            self.stats.inc("unphase_input_with_undeclared_phase_tags")
        from whatshap.cli import CommandLineError

        via_stdin = bool(op.get("stdin"))
        if via_stdin:
            self.stats.inc("unphase_via_stdin")
        try:
            self._unphase(src, out, via_stdin=via_stdin)
        except (ChildRaised, ChildCrashed) as e:
            tname = getattr(e, "type_name", "ProcessDied")
            site = getattr(e, "site", "")
            if via_stdin and (self.world.get("no_contig_lines") or self.world.get("omit_contig_lines")):
                # known limitation (known_findings.json): standard input cannot be scanned for undeclared contigs first
                site += ":stdin+undeclared-contig"
            self.add("C13", "unphase-crashed",
                     "%s raised %s: %s (in %s) on a well-formed VCF with call shapes %s%s" % (
                         what, tname, getattr(e, "message", str(e)), site, shapes,
                         ", header without ##contig lines" if self.world.get("no_contig_lines") else
                         ", header with some ##contig lines only" if self.world.get("omit_contig_lines") else ""),
                     "unphase-crashed:%s:%s" % (tname, site))
            return False
        except Exception as e:
            tb = traceback.format_exc()
            site = [l for l in tb.strip().splitlines() if l.strip().startswith("File")][-1].split(", in ")[-1]
            odd_shapes = [sh for sh in shapes if sh not in ("diploid", "diploid-phased", "diploid-missing")]
            self.add("C13", "unphase-crashed",
                     "%s raised %s: %s (in %s) on a well-formed VCF with call shapes %s%s" % (
                         what, type(e).__name__, e, site, shapes, ", header without ##contig lines" if self.world.get("no_contig_lines") else ""),
                     "unphase-crashed:%s:%s" % (type(e).__name__, site))
            return False
        self.stats.inc("op_unphase")
        try:
            out_samples, out_hdr_formats, out_recs = raw_records(out)
        except Exception as e:
            self.add("C13", "unphase-output-unreadable", "%s: output cannot be parsed: %s" % (what, e), "unphase-output-unreadable")
            return False
        model = unphased_model(in_samples, in_recs)
        for cls, msg, sig in compare_unphased(in_samples, model, out_recs, what):
            self.add("C13", cls, msg, cls + ":" + sig)
            return False
        # U4 idempotence
        out2 = self.newfile("unphase_twice")
        try:
            self._unphase(out, out2)
            _, _, recs2 = raw_records(out2)
        except Exception as e:
            tname = getattr(e, "type_name", type(e).__name__)
            self.add("C13", "unphase-twice-crashed", "%s: unphasing the output again raised %s: %s" % (what, tname, e),
                     "unphase-twice-crashed:%s" % tname)
            return False
        if recs2 != out_recs:
            k = [j for j, (a, b) in enumerate(zip(out_recs, recs2)) if a != b]
            self.add("C13", "unphase-not-idempotent", "%s: applying unphase twice differs from once at record %s" % (what, k[:3]), "unphase-not-idempotent")
            return False
        # U5 equals unphase(initial)
        if self.baseline_unphased is None:
            try:
                p = self.ensure_initial_unphased()
                self.baseline_unphased = raw_records(p)[2]
            except Exception:
                self.baseline_unphased = False
        if self.baseline_unphased is not False:
            if out_recs != self.baseline_unphased:
                j = [j for j, (a, b) in enumerate(zip(out_recs, self.baseline_unphased)) if a != b]
                a = out_recs[j[0]] if j else None
                b = self.baseline_unphased[j[0]] if j else None
                diffk = [k for k in a if a[k] != b[k]] if j else ["record count"]
                self.add("C13", "unphase-history-dependent",
                         "%s: unphase(file after %d operations) differs from unphase(original) at %s (%s): %r vs %r" % (
                             what, i, "%s:%d" % (a["chrom"], a["pos"] + 1) if j else "-", diffk,
                             {k: a[k] for k in diffk} if j else len(out_recs), {k: b[k] for k in diffk} if j else len(self.baseline_unphased)),
                         "unphase-history-dependent:" + ",".join(diffk))
                return False
            if i > 0:
                self.stats.inc("unphase_after_history")
        # C09 side: nothing decodes any more
        self.model = {}
        self.tag_of = {}
        self.current = out
        self.snap[i] = out
        self.log.add("unphase", digest(repr(out_recs))[:16])
        return True

    def run(self):
        self.setup()
        for i, op in enumerate(self.case["ops"]):
            fn = {"phase": self.op_phase, "twin": self.op_twin, "from_vcf": self.op_from_vcf, "unphase": self.op_unphase}[op["op"]]
            if not fn(i, op):
                break
            self.log.add("model", sorted((list(k), [v[0], list(v[1])]) for k, v in self.model.items()))


# ------------------------------------------------------------------------------------------------
# engine


def _workdir():
    from . import build

    base = os.path.join(build.scratch_root(), "runs")
    os.makedirs(base, exist_ok=True)
    return tempfile.mkdtemp(prefix="h", dir=base)


class HistEngine(Engine):
    name = "histsim"
    properties = ("C09", "C13", "C17")
    optimize_subpass = {"quick": 800, "thorough": 20000}  # cases of the second pass under python -O

    def tiers(self, prop):
        if prop == "C17":
            return {"quick": dict(cases=4000, per_batch=50, budget_s=200, batch_timeout=300, min_budget_s=90),
                    "thorough": dict(cases=160000, per_batch=100, budget_s=1500, batch_timeout=600, min_budget_s=180)}
        return {"quick": dict(cases=4800, per_batch=50, budget_s=200, batch_timeout=300, min_budget_s=90),
                "thorough": dict(cases=160000, per_batch=100, budget_s=1500, batch_timeout=600, min_budget_s=180)}

    def gen(self, prop, rng, tier):
        if prop == "C17":
            from . import tagsim

            return tagsim.gen_tags_case(rng, tier)
        return gen_store_case(rng, prop, tier)

    def run(self, prop, case):
        logging.disable(logging.CRITICAL)
        import pysam

        pysam.set_verbosity(0)
        # imported here once, so that the forked child of every operation finds them loaded
        import whatshap.cli.phase, whatshap.cli.unphase, whatshap.cli.haplotag, whatshap.cli.haplotagphase  # noqa
        log = EventLog()
        stats = Counter()
        d = _workdir()
        try:
            if case["machine"] == "tags":
                from . import tagsim

                r = tagsim.TagsRun(case, log, stats, d)
            else:
                r = StoreRun(case, log, stats, d)
            r.run()
            viol = [v for p, v in r.viol if p == prop]
            other = [v for p, v in r.viol if p != prop]
            if other:
                stats.inc("violations_of_other_property")
        finally:
            if os.environ.get("VERIF_KEEP"):
                print("kept run directory: " + d)
            else:
                shutil.rmtree(d, ignore_errors=True)
        kinds = ",".join(o["op"] + (":" + o["tag"] if "tag" in o else "") for o in case["ops"])
        w = case["world"]
        shape = "%s|%dc%ds%dr|%s" % (kinds, len(w["chroms"]), len(w["samples"]), len(w["records"]), log.digest()[:12])
        executed = stats.get("op_phase", 0) + stats.get("op_unphase", 0) + stats.get("op_twin", 0) + stats.get("op_from_vcf", 0) + stats.get("op_pipeline", 0)
        return {"log_digest": log.digest(), "violations": viol, "stats": stats, "nontrivial": executed >= 1, "shape": shape}

    # -- shrinking: operations first, then the world
    def shrink(self, prop, case):
        ops = case["ops"]
        n = len(ops)
        size = max(1, n // 2)
        while size >= 1:
            for start in range(0, n, size):
                cand = dict(case)
                cand["ops"] = ops[:start] + ops[start + size:]
                if cand["ops"] and len(cand["ops"]) < n:
                    # 'source' indices refer to op positions: re-base them
                    fixed = []
                    for j, o in enumerate(cand["ops"]):
                        if o["op"] == "from_vcf":
                            o = dict(o)
                            o["source"] = min(o["source"], j - 1)
                        fixed.append(o)
                    cand["ops"] = fixed
                    yield cand
            size //= 2
        # simplify op arguments
        for j, o in enumerate(ops):
            for key in ("samples", "chroms", "noref", "only_snvs", "outfmt", "distrust", "extra"):
                if o.get(key):
                    cand = dict(case)
                    o2 = dict(o)
                    o2.pop(key)
                    cand["ops"] = ops[:j] + [o2] + ops[j + 1:]
                    yield cand
        w = case["world"]
        # drop a library's reads (halves)
        for lib, L in w.get("libs", {}).items():
            reads = L["reads"]
            if len(reads) > 1:
                for half in (reads[:len(reads) // 2], reads[len(reads) // 2:], reads[::2]):
                    cand = copy.deepcopy(case)
                    cand["world"]["libs"][lib]["reads"] = half
                    yield cand
        # drop a chromosome
        if len(w["chroms"]) > 1:
            for ci in range(len(w["chroms"])):
                yield drop_chrom(case, ci)
        # drop a sample
        if len(w["samples"]) > 1:
            for s in w["samples"]:
                yield drop_sample(case, s)
        # drop records (chunks, then singles)
        nrec = len(w["records"])
        size = nrec // 2
        while size >= 1:
            for start in range(0, nrec, size):
                idx = set(range(start, min(nrec, start + size)))
                if len(idx) < nrec:
                    yield drop_records(case, idx)
            size //= 2
        # plain renderings: remove extra FORMAT fields of one record
        for j, r in enumerate(w["records"]):
            if len(r["format"]) > 1 and r["format"][0] == "GT":
                keep = [k for k in r["format"] if k in ("GT", "PS", "HP")]
                if keep != r["format"]:
                    cand = copy.deepcopy(case)
                    rr = cand["world"]["records"][j]
                    idx = [r["format"].index(k) for k in keep]
                    rr["format"] = keep
                    for s in rr["calls"]:
                        rr["calls"][s] = [r["calls"][s][q] for q in idx]
                    yield cand
            if r["info"] != "." or r["qual"] != "." or r["id"] != "." or r["filter"] != "PASS":
                cand = copy.deepcopy(case)
                cand["world"]["records"][j].update({"info": ".", "qual": ".", "id": ".", "filter": "PASS"})
                yield cand
        if w.get("header"):
            cand = copy.deepcopy(case)
            cand["world"]["header"] = []
            yield cand

    def describe(self, prop):
        common_real = ["whatshap Python + Cython/C++ from /repo's working tree (scratch build)", "pysam/htslib", "pyfaidx", "files on tmpfs"]
        if prop == "C09":
            rule = ("case i from Random('C09:<seed>:<i>'): world = 1-2 chromosomes (300-3000 bp), 1-3 samples, 3-25 core variants per chromosome "
                    "(SNV/ins/del/MNP), two error-free read libraries of two different truths, renderings drawn per run (unsorted 1/0 GTs, "
                    "missing calls, pre-existing PS or HP phase incl. interleaved sets and PQ, extra FORMAT/INFO, multi-ALT/duplicate/no-ALT "
                    "decoy records); history = 1-6 operations of phase(lib,tag,sample subset,chromosome subset,with/without reference), "
                    "twin(PS vs HP of the same input), phase_from_vcf(earlier snapshot as only phase input), unphase. Oracles after every "
                    "operation: R1 round-trip vs what the run handed to PhasedVcfWriter.write, R2 no statement of either encoding that the "
                    "run did not write, R3 isolation of non-targets, R4 PS/HP twins equal, R5 reproduction of source sets. non-trivial = at "
                    "least one operation executed; distinct = (operation kinds, world shape, event-log digest).")
        elif prop == "C13":
            rule = ("case i from Random('C13:<seed>:<i>'): 55% 'odd' worlds (haploid, triploid, tetraploid, '.', './.', '0/.', '0/1/.', "
                    "records without GT, multi-ALT, HP/PS/PQ in records and/or header only, several samples with different shapes) with 1-3 "
                    "unphase applications; 45% phaseable diploid worlds with histories of phase/phase_from_vcf/unphase. After every unphase: "
                    "U1 it succeeded, U2 no phased call and no HP/PS/PQ value, U3 every other field and the allele multiset of every GT equal "
                    "to an independent pysam-level model of the input, U4 unphase(unphase(x)) == unphase(x), U5 == unphase(original file).")
        else:
            rule = ("case i from Random('C17:<seed>:<i>'): diploid world with error-free reads; pipeline phase(L0,tag) -> haplotag (options drawn) "
                    "[-> haplotag again] -> unphase all / a seeded subset / a whole chromosome -> haplotagphase; T1 already phased calls "
                    "unchanged, T2 newly phased calls have the order and phase set of the original phased VCF unless a covering read "
                    "overlaps two phase sets (computed from the world).")
        return {
            "rule": rule,
            "assumptions": [
                "reads are error-free copies of the generated haplotypes; variants are >= 15 bp apart so that allele detection is unambiguous",
                "pysam/htslib parse what whatshap wrote faithfully",
                "histories that would make the *user* mix HP and PS encodings in one file (phasing only some samples/chromosomes with the other tag) are not generated: the executor skips such operations",
                "sampling, not proof",
            ],
            "real_vs_stub": {"real": common_real, "stub": [], "model": ["phase-store dict (chrom,sample,pos)->(set,alleles)", "record-level model of the unphased file"],
                             "instrumentation": ["PhasedVcfWriter.write wrapped in-process to record its arguments"],
                             "faults_injected": "none: the property quantifies over inputs and histories only"},
        }

    def evidence_extra(self, prop, stats):
        ops = sum(v for k, v in stats.items() if k.startswith("op_") and k != "op_rejected")
        return {"operations_executed": ops, "fault_kinds_fired": {}, "simulated_time_s": 0}

    def required_reach(self, prop, tier):
        if prop == "C09":
            return {"op_phase": 50, "op_twin": 10, "op_from_vcf": 10, "rephase_same_tag": 5, "rephase_other_tag": 5,
                    "r5_sets_checked": 10, "written_statements": 200, "twin_nonempty": 5}
        if prop == "C13":
            return {"op_unphase": 50, "unphase_after_history": 10}
        return {"op_pipeline": 20, "t2_checked": 50, "t1_checked": 50}

    def sample(self, prop, case):
        w = case["world"]
        return {"ops": case["ops"], "knobs": case.get("knobs"),
                "world": {"chroms": [(c["name"], len(c["seq"])) for c in w["chroms"]], "samples": w["samples"],
                          "records": len(w["records"]), "libs": {k: len(v["reads"]) for k, v in w.get("libs", {}).items()},
                          "first_records": [W.vcf_text({**w, "records": w["records"][:3]}).splitlines()[-min(3, len(w["records"])):]]}}


def drop_records(case, idx):
    cand = copy.deepcopy(case)
    w = cand["world"]
    core_k = 0
    keep_cols = []
    new = []
    for j, r in enumerate(w["records"]):
        if r.get("core"):
            if j not in idx:
                keep_cols.append(core_k)
            core_k += 1
        if j not in idx:
            new.append(r)
    dropped_keys = {(w["chroms"][r["chrom"]]["name"], r["pos"]) for j, r in enumerate(w["records"]) if j in idx}
    w["records"] = new
    for tname, t in w.get("truth", {}).items():
        for s in t:
            t[s] = [[h[k] for k in keep_cols] for h in t[s]]
    if "state0" in cand:
        cand["state0"] = [e for e in cand["state0"] if (e[0], e[2]) not in dropped_keys]
    return cand


def drop_chrom(case, ci):
    cand = copy.deepcopy(case)
    w = cand["world"]
    idx = {j for j, r in enumerate(w["records"]) if r["chrom"] == ci}
    name = w["chroms"][ci]["name"]
    cand = drop_records(cand, idx)
    w = cand["world"]
    del w["chroms"][ci]
    for r in w["records"]:
        if r["chrom"] > ci:
            r["chrom"] -= 1
    for lib in w.get("libs", {}).values():
        lib["reads"] = [dict(r, chrom=r["chrom"] - (1 if r["chrom"] > ci else 0)) for r in lib["reads"] if r["chrom"] != ci]
    if "state0" in cand:
        cand["state0"] = [e for e in cand["state0"] if e[0] != name]
    return cand


def drop_sample(case, s):
    cand = copy.deepcopy(case)
    w = cand["world"]
    w["samples"] = [x for x in w["samples"] if x != s]
    for r in w["records"]:
        r["calls"].pop(s, None)
    for t in w.get("truth", {}).values():
        t.pop(s, None)
    for lib in w.get("libs", {}).values():
        lib["reads"] = [r for r in lib["reads"] if r["sample"] != s]
    if "state0" in cand:
        cand["state0"] = [e for e in cand["state0"] if e[1] != s]
    return cand


ENGINE = HistEngine()
