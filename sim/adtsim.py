"""
C18 — abstract-data-type history machine (DESIGN §4 C18).

Seeded operation histories against whatshap.priorityqueue.PriorityQueue and
whatshap.graph.ComponentFinder, with a dictionary / set-partition reference model stepped in
lock-step and checked after EVERY operation.  No faults are injected: these two classes have no
clock, schedule, I/O or callback, so the simulator contributes its history half only.

A case is explicit: {"kind": "pq"|"cf", "domain": [...], "ops": [[name, args...], ...]}.
Operations that the contract does not allow in the current model state (push of a queued item,
change_score of an item that is not queued, merge(x, x)) are *skipped* by the executor, so a
shrinker may drop any subset of operations and the remainder is still a legal history.
"""

import copy

from .harness import Engine, EventLog, Counter, violation, digest


def norm_score(s):
    """model representation of a score: always a tuple"""
    if isinstance(s, int):
        return (s,)
    return tuple(s)


def ext_score(t):
    """what the queue returns for a score tuple"""
    return t[0] if len(t) == 1 else tuple(t)


# ------------------------------------------------------------------------------------------------
# generation


def _gen_score(rng, shape, width, length):
    def val():
        if width == 1:
            return 0
        if width == "extreme":
            return rng.choice([-(2**31), -(2**31) + 1, -1, 0, 1, 2**31 - 2, 2**31 - 1])
        return rng.randrange(-width // 2, width - width // 2)

    if shape == "scalar":
        return val()
    if shape == "tuple":
        return [val() for _ in range(length)]
    if shape == "mixed":
        n = rng.choice([0, 1, 1, 2, 2, 3, length])
        if n == 1 and rng.random() < 0.5:
            return val()
        return [val() for _ in range(n)]
    raise ValueError(shape)


def gen_pq(rng, tier):
    n_items = rng.choice([2, 3, 4, 6, 8, 12, 20, 40])
    # items are C ints; include negative and large ids sometimes
    base = rng.choice([0, 0, 0, -5, 1000, 2**31 - 50])
    domain = [base + i for i in range(n_items)]
    width = rng.choice([1, 2, 3, 5, 20, 1000, 2**30, "extreme"])
    shape = rng.choice(["scalar", "scalar", "tuple", "tuple", "mixed"])
    length = rng.choice([1, 2, 2, 3, 5])
    mix = rng.choice(["push", "pop", "change", "balanced", "fill-drain"])
    n_ops = rng.choice([5, 10, 20, 40, 80, 150, 250]) if tier == "quick" else rng.choice([10, 40, 100, 200, 400, 800])
    target_bias = rng.choice(["root", "leaf", "inner", "any", "any"])
    weights = {
        "push": dict(push=6, pop=1, change=2, look=1),
        "pop": dict(push=3, pop=4, change=1, look=1),
        "change": dict(push=2, pop=1, change=6, look=1),
        "balanced": dict(push=3, pop=2, change=3, look=1),
        "fill-drain": dict(push=3, pop=2, change=3, look=1),
    }[mix]
    ops = []
    model = {}
    for k in range(n_ops):
        w = dict(weights)
        if mix == "fill-drain":
            phase = (k * 4 // max(n_ops, 1)) % 2
            w = dict(push=8, pop=0.5, change=3, look=0.5) if phase == 0 else dict(push=0.5, pop=6, change=3, look=0.5)
        free = [i for i in domain if i not in model]
        if not free:
            w["push"] = 0
        if not model:
            w["change"] = 0
            w["pop"] = w["pop"] * 0.2  # pop on empty must raise IndexError: keep it, rarely
        names = sorted(w)
        tot = sum(w[n] for n in names)
        if tot <= 0:
            w = dict(pop=1)
            names = ["pop"]
            tot = 1
        x = rng.random() * tot
        for name in names:
            x -= w[name]
            if x <= 0:
                break
        if name == "push":
            item = rng.choice(free)
            s = _gen_score(rng, shape, width, length)
            ops.append(["push", s, item])
            model[item] = norm_score(s)
        elif name == "pop":
            ops.append(["pop"])
            if model:
                # any maximal item may come out; the generator only needs a plausible model,
                # the executor uses the queue's actual answer
                m = max(model.values())
                cands = sorted(i for i in model if model[i] == m)
                del model[cands[0]]
        elif name == "change":
            ranked = sorted(model, key=lambda i: (model[i], i))
            if target_bias == "root":
                item = ranked[-1] if rng.random() < 0.7 else rng.choice(ranked)
            elif target_bias == "leaf":
                item = ranked[0] if rng.random() < 0.7 else rng.choice(ranked)
            elif target_bias == "inner":
                item = ranked[len(ranked) // 2] if rng.random() < 0.7 else rng.choice(ranked)
            else:
                item = rng.choice(ranked)
            how = rng.choice(["new", "new", "up", "down", "same", "to-max", "to-min"])
            old = model[item]
            if how == "new":
                s = _gen_score(rng, shape, width, length)
            elif how == "same":
                s = list(old)
            elif how == "up":
                s = list(old)
                if s:
                    s[-1] = min(s[-1] + rng.choice([1, 1, 2, 1000]), 2**31 - 1)
                else:
                    s = [0]
            elif how == "down":
                s = list(old)
                if s:
                    s[-1] = max(s[-1] - rng.choice([1, 1, 2, 1000]), -(2**31))
            elif how == "to-max":
                s = list(max(model.values()))
            else:
                s = list(min(model.values()))
            if shape == "scalar":
                s = s[0] if isinstance(s, list) and len(s) == 1 else s
            ops.append(["change", item, s])
            model[item] = norm_score(s)
        else:
            item = rng.choice(domain + [domain[-1] + 7])
            ops.append([rng.choice(["score", "len", "empty"]), item])
    return {"kind": "pq", "domain": domain, "ops": ops,
            "knobs": {"width": width, "shape": shape, "mix": mix, "bias": target_bias,
                      "score_arg": rng.choice(["tuple", "tuple", "tuple", "list", "iter", "gen"]),
                      # Observation is not free: a lookup after every operation resets whatever a lookup caches. A third of
                      # the histories are observed only through their own operations (and the final drain).
                      "observe": rng.choice(["full", "full", "sparse"])}}


def gen_cf(rng, tier):
    n = rng.choice([2, 3, 4, 5, 8, 12, 20, 30])
    kind = rng.choice(["int", "int", "tuple", "str", "negint"])
    if kind == "int":
        domain = rng.sample(range(0, 4 * n), n)
    elif kind == "negint":
        domain = rng.sample(range(-2 * n, 2 * n), n)
    elif kind == "tuple":
        domain = [[rng.randrange(3), rng.randrange(n)] for _ in range(n)]
        domain = [list(t) for t in sorted({tuple(t) for t in domain})]
        while len(domain) < 2:
            domain.append([9, len(domain)])
    else:
        alphabet = "abcXYZ019_"
        domain = sorted({"".join(rng.choice(alphabet) for _ in range(rng.choice([1, 2, 3]))) for _ in range(n)})
        while len(domain) < 2:
            domain.append("zz%d" % len(domain))
    order = rng.choice(["random", "ascending-chain", "descending-chain", "star-to-max", "star-to-min", "pairs-then-join"])
    n_ops = rng.choice([3, 6, 12, 25, 50, 100])
    find_rate = rng.choice([0.0, 0.1, 0.3, 0.6])
    vals = [tuple(v) if isinstance(v, list) else v for v in domain]
    srt = sorted(vals)
    ops = []

    def enc(v):
        return list(v) if isinstance(v, tuple) else v

    plan = []
    if order == "ascending-chain":
        plan = [(srt[i], srt[i + 1]) for i in range(len(srt) - 1)]
    elif order == "descending-chain":
        plan = [(srt[i + 1], srt[i]) for i in reversed(range(len(srt) - 1))]
    elif order == "star-to-max":
        plan = [(srt[-1], v) for v in srt[:-1]]
    elif order == "star-to-min":
        plan = [(v, srt[0]) for v in srt[1:]]
    elif order == "pairs-then-join":
        plan = [(srt[i + 1], srt[i]) for i in range(0, len(srt) - 1, 2)]
        plan += [(srt[i + 1], srt[i + 2]) for i in range(0, len(srt) - 2, 2)]
    rng.random()
    if order != "random" and rng.random() < 0.5:
        rng.shuffle(plan)
    for k in range(n_ops):
        if rng.random() < find_rate:
            ops.append(["find", enc(rng.choice(vals))])
        elif plan:
            x, y = plan.pop(0)
            if rng.random() < 0.3:
                x, y = y, x
            ops.append(["merge", enc(x), enc(y)])
        else:
            x, y = rng.sample(vals, 2)
            ops.append(["merge", enc(x), enc(y)])
    return {"kind": "cf", "domain": domain, "ops": ops, "knobs": {"values": kind, "order": order}}


# ------------------------------------------------------------------------------------------------
# execution with lock-step model


def as_score_arg(s, how):
    """the score as handed to push()/change_score(): int, tuple, list, or a one-shot iterator ('an iterable object yielding ints')"""
    if not isinstance(s, list):
        return s
    if how == "iter":
        return iter(tuple(s))
    if how == "gen":
        return (x for x in tuple(s))
    if how == "list":
        return list(s)
    return tuple(s)


def run_pq(case, log, stats):
    from whatshap.priorityqueue import PriorityQueue

    how = case.get("knobs", {}).get("score_arg", "tuple")
    if how != "tuple":
        stats.inc("pq_histories_score_arg_" + how)
    sparse = case.get("knobs", {}).get("observe") == "sparse"
    if sparse:
        stats.inc("pq_histories_sparse_observation")
    pq = PriorityQueue()
    model = {}
    domain = list(case["domain"])
    probe_extra = [domain[-1] + 7, domain[0] - 3]
    states = set()
    viol = []

    def check_all(step, opname):
        n = len(pq)
        if n != len(model):
            return violation("pq-len", "after op %d (%s): len(queue)=%d, model has %d items" % (step, opname, n, len(model)), "pq-len")
        if pq.is_empty() != (len(model) == 0):
            return violation("pq-empty", "after op %d (%s): is_empty()=%r but model has %d items" % (step, opname, pq.is_empty(), len(model)), "pq-empty")
        if sparse:
            return None
        for it in domain + probe_extra:
            got = pq.get_score_by_item(it)
            want = ext_score(model[it]) if it in model else None
            if got != want:
                return violation("pq-score", "after op %d (%s): get_score_by_item(%d)=%r, model says %r" % (step, opname, it, got, want), "pq-score")
        return None

    for step, op in enumerate(case["ops"]):
        name = op[0]
        if name == "push":
            _, s, item = op
            if item in model:
                stats.inc("skipped_ops")
                continue
            pq.push(as_score_arg(s, how), item)
            model[item] = norm_score(s)
            stats.inc("op_push")
        elif name == "pop":
            if not model:
                try:
                    r = pq.pop()
                except IndexError:
                    stats.inc("op_pop_empty")
                    log.add("pop-empty")
                    continue
                viol.append(violation("pq-pop-empty", "op %d: pop() on an empty queue returned %r instead of raising IndexError" % (step, r), "pq-pop-empty"))
                break
            r = pq.pop()
            m = max(model.values())
            try:
                score, item = r
            except Exception:
                viol.append(violation("pq-pop-shape", "op %d: pop() returned %r" % (step, r), "pq-pop-shape"))
                break
            ties = sum(1 for v in model.values() if v == m)
            if ties > 1:
                stats.inc("pop_with_ties")
            if item not in model:
                viol.append(violation("pq-pop-item", "op %d: pop() returned item %r which is not queued (model: %r)" % (step, item, sorted(model)), "pq-pop-item"))
                break
            if norm_score(score) != m or score != ext_score(m):
                viol.append(violation("pq-pop-order", "op %d: pop() returned score %r, the maximum queued score is %r" % (step, score, ext_score(m)), "pq-pop-order"))
                break
            if model[item] != m:
                viol.append(violation("pq-pop-stale", "op %d: pop() returned (%r, %r) but the score last assigned to item %r is %r" % (step, score, item, item, ext_score(model[item])), "pq-pop-stale"))
                break
            del model[item]
            stats.inc("op_pop")
            log.add("pop", [score, item])
        elif name == "change":
            _, item, s = op
            if item not in model:
                stats.inc("skipped_ops")
                continue
            old = model[item]
            new = norm_score(s)
            ranked = sorted(model.values())
            if old == ranked[-1]:
                stats.inc("change_root_candidate")
            if old == ranked[0]:
                stats.inc("change_leaf_candidate")
            stats.inc("change_up" if new > old else "change_down" if new < old else "change_same")
            pq.change_score(item, as_score_arg(s, how))
            model[item] = new
            stats.inc("op_change")
        elif name == "score":
            got = pq.get_score_by_item(op[1])
            log.add("score", got)
            stats.inc("op_lookup")
            want = ext_score(model[op[1]]) if op[1] in model else None
            if got != want:
                viol.append(violation("pq-score", "op %d: get_score_by_item(%d)=%r, model says %r" % (step, op[1], got, want), "pq-score"))
                break
        elif name == "len":
            log.add("len", len(pq))
            stats.inc("op_lookup")
        elif name == "empty":
            log.add("empty", pq.is_empty())
            stats.inc("op_lookup")
        else:
            raise ValueError(name)
        v = check_all(step, name)
        if v:
            viol.append(v)
            break
        st = digest(sorted((k, list(v)) for k, v in model.items()))[:16]
        states.add(st)
        log.add("state", st)

    if not viol:
        # drain: non-increasing scores, exactly the model's items, each with its last score
        prev = None
        remaining = dict(model)
        k = 0
        while len(pq) > 0 and k <= len(model) + 2:
            k += 1
            score, item = pq.pop()
            t = norm_score(score)
            if prev is not None and t > prev:
                viol.append(violation("pq-drain-order", "drain: score %r popped after lower score %r" % (score, ext_score(prev)), "pq-drain-order"))
                break
            if item not in remaining or remaining[item] != t:
                viol.append(violation("pq-drain-item", "drain: popped (%r, %r); model has %r for that item" % (score, item, ext_score(remaining[item]) if item in remaining else None), "pq-drain-item"))
                break
            del remaining[item]
            prev = t
        else:
            if remaining or len(pq) != 0:
                viol.append(violation("pq-drain-missing", "drain: queue empty=%r but model still holds %r" % (pq.is_empty(), sorted(remaining)), "pq-drain-missing"))
        stats.inc("drained_items", k)
    stats.inc("pq_states", len(states))
    return viol, len(states)


def run_cf(case, log, stats):
    from whatshap.graph import ComponentFinder

    def dec(v):
        return tuple(v) if isinstance(v, list) else v

    vals = [dec(v) for v in case["domain"]]
    cf = ComponentFinder(vals)
    block = {v: frozenset([v]) for v in vals}
    viol = []
    states = set()

    def check_all(step, opname):
        # observe on a copy: find() compresses paths, and the history alone must decide the shape
        probe = copy.deepcopy(cf)
        for v in vals:
            got = probe.find(v)
            want = min(block[v])
            if got != want:
                return violation("cf-representative", "after op %d (%s): find(%r)=%r, minimum of its component %r is %r" % (step, opname, v, got, sorted(block[v]), want), "cf-representative")
        return None

    for step, op in enumerate(case["ops"]):
        if op[0] == "merge":
            x, y = dec(op[1]), dec(op[2])
            if x == y or x not in block or y not in block:
                stats.inc("skipped_ops")
                continue
            if block[x] is block[y] or block[x] == block[y]:
                stats.inc("merge_same_component")
            cf.merge(x, y)
            nb = block[x] | block[y]
            for v in nb:
                block[v] = nb
            stats.inc("op_merge")
        elif op[0] == "find":
            x = dec(op[1])
            if x not in block:
                stats.inc("skipped_ops")
                continue
            got = cf.find(x)
            if got != min(block[x]):
                viol.append(violation("cf-representative", "op %d: find(%r)=%r, minimum of its component %r is %r" % (step, x, got, sorted(block[x]), min(block[x])), "cf-representative"))
                break
            log.add("find", repr(got))
            stats.inc("op_find")
        else:
            raise ValueError(op[0])
        v = check_all(step, op[0])
        if v:
            viol.append(v)
            break
        st = digest(sorted(sorted(map(repr, b)) for b in set(block.values())))[:16]
        states.add(st)
        log.add("state", st)
    stats.inc("cf_partitions", len(states))
    return viol, len(states)


# ------------------------------------------------------------------------------------------------


def gen_cf_big(rng, tier):
    """one large component built root-to-root in a strict order: paths that no operation ever compresses, then a query at the deep end"""
    n = rng.choice([1200, 2500, 5000])
    order = rng.choice(["descending", "ascending", "descending"])
    return {"kind": "cf-big", "n": n, "order": order, "probe": rng.choice(["deep", "deep", "middle", "shallow"]), "knobs": {"n": n, "order": order}, "ops": []}


def run_cf_big(case, log, stats):
    from whatshap.graph import ComponentFinder

    n = case["n"]
    cf = ComponentFinder(range(n))
    if case["order"] == "descending":
        for i in range(n - 1, 0, -1):
            cf.merge(i, i - 1)
    else:
        for i in range(n - 1):
            cf.merge(i, i + 1)
    stats.inc("op_merge", n - 1)
    probe = {"deep": n - 1, "middle": n // 2, "shallow": 1}[case["probe"]]
    viol = []
    try:
        got = cf.find(probe)
    except RecursionError as e:
        return [violation("cf-exception", "find(%d) on a chain of %d values merged in %s order raised RecursionError" % (probe, n, case["order"]), "cf-exception:RecursionError")], 1
    if got != 0:
        viol.append(violation("cf-representative", "find(%d) on a chain of %d values returned %r, the minimum of the component is 0" % (probe, n, got), "cf-representative"))
    else:
        for v in (0, 1, n // 3, n - 2, n - 1):
            if cf.find(v) != 0:
                viol.append(violation("cf-representative", "find(%d)=%r on a fully merged chain of %d values" % (v, cf.find(v), n), "cf-representative"))
                break
    stats.inc("cf_big_chains")
    log.add("big", [n, case["order"], case["probe"]])
    return viol, 2


def gen_multi(rng, tier):
    """two or three live instances of the same class over overlapping domains, operated in turn"""
    which = rng.choice(["cf", "cf", "pq"])
    n = rng.choice([2, 2, 3])
    subs = [gen_cf(rng, tier) if which == "cf" else gen_pq(rng, tier) for _ in range(n)]
    if which == "cf":
        # overlapping values: all instances share one domain
        dom = subs[0]["domain"]
        vals = [tuple(v) if isinstance(v, list) else v for v in dom]
        for sub in subs[1:]:
            sub["domain"] = dom
            new_ops = []
            for op in sub["ops"]:
                if op[0] == "merge":
                    x, y = rng.sample(vals, 2)
                    new_ops.append(["merge", list(x) if isinstance(x, tuple) else x, list(y) if isinstance(y, tuple) else y])
                else:
                    v = rng.choice(vals)
                    new_ops.append(["find", list(v) if isinstance(v, tuple) else v])
            sub["ops"] = new_ops
    else:
        dom0 = subs[0]["domain"]
        for sub in subs[1:]:
            own = sub["domain"]
            remap = {it: dom0[k % len(dom0)] for k, it in enumerate(own)}
            new_ops = []
            for op in sub["ops"]:
                if op[0] == "push":
                    new_ops.append(["push", op[1], remap.get(op[2], dom0[0])])
                elif op[0] == "change":
                    new_ops.append(["change", remap.get(op[1], dom0[0]), op[2]])
                elif op[0] == "pop":
                    new_ops.append(["pop"])
            sub["domain"] = dom0
            sub["ops"] = new_ops
        subs[0]["ops"] = [op for op in subs[0]["ops"] if op[0] in ("push", "change", "pop")]
    # interleave, keeping each instance's own order; an instance is created at its first operation
    queues = [list(sub["ops"][:60]) for sub in subs]
    ops = []
    while any(queues):
        i = rng.choice([k for k, q in enumerate(queues) if q])
        burst = rng.choice([1, 1, 2, 5])
        for _ in range(burst):
            if queues[i]:
                ops.append([i] + queues[i].pop(0))
    return {"kind": "multi", "which": which, "n": n, "domains": [sub["domain"] for sub in subs], "ops": ops,
            "knobs": {"which": which, "instances": n}}


def run_multi(case, log, stats):
    """each instance has its own model; an operation on one instance must not be visible in another"""
    subs = []
    for i in range(case["n"]):
        subs.append({"kind": case["which"], "domain": case["domains"][i], "ops": []})
    # replay by re-running every instance's prefix would hide nothing but costs O(n^2); instead drive live objects
    from whatshap.graph import ComponentFinder
    from whatshap.priorityqueue import PriorityQueue

    def dec(v):
        return tuple(v) if isinstance(v, list) else v

    live = {}
    viol = []
    nstates = 0
    for step, op in enumerate(case["ops"]):
        i, name = op[0], op[1]
        if i not in live:
            if case["which"] == "cf":
                vals = [dec(v) for v in case["domains"][i]]
                live[i] = {"obj": ComponentFinder(vals), "block": {v: frozenset([v]) for v in vals}, "vals": vals}
            else:
                live[i] = {"obj": PriorityQueue(), "model": {}, "vals": list(case["domains"][i])}
            stats.inc("instances_created")
        inst = live[i]
        if case["which"] == "cf":
            if name == "merge":
                x, y = dec(op[2]), dec(op[3])
                if x == y or x not in inst["block"] or y not in inst["block"]:
                    stats.inc("skipped_ops")
                    continue
                inst["obj"].merge(x, y)
                nb = inst["block"][x] | inst["block"][y]
                for v in nb:
                    inst["block"][v] = nb
                stats.inc("op_merge")
            else:
                x = dec(op[2])
                if x not in inst["block"]:
                    continue
                inst["obj"].find(x)
                stats.inc("op_find")
            # every live instance must still agree with its own model
            for j, other in sorted(live.items()):
                probe = copy.deepcopy(other["obj"])
                for v in other["vals"]:
                    got = probe.find(v)
                    want = min(other["block"][v])
                    if got != want:
                        viol.append(violation("cf-instances-interfere" if j != i else "cf-representative",
                                              "after op %d (%s on instance %d): instance %d: find(%r)=%r, minimum of its component %r is %r" % (
                                                  step, name, i, j, v, got, sorted(other["block"][v]), want),
                                              "cf-instances-interfere" if j != i else "cf-representative"))
                        return viol, nstates
        else:
            m = inst["model"]
            if name == "push":
                s, item = op[2], op[3]
                if item in m:
                    continue
                inst["obj"].push(tuple(s) if isinstance(s, list) else s, item)
                m[item] = norm_score(s)
                stats.inc("op_push")
            elif name == "pop":
                if not m:
                    try:
                        inst["obj"].pop()
                    except IndexError:
                        continue
                    viol.append(violation("pq-pop-empty", "op %d: pop() on an empty queue (instance %d) did not raise" % (step, i), "pq-pop-empty"))
                    return viol, nstates
                score, item = inst["obj"].pop()
                mx = max(m.values())
                if item not in m or m[item] != mx or norm_score(score) != mx:
                    viol.append(violation("pq-pop-order", "op %d: instance %d: pop() returned (%r, %r), model maximum is %r" % (step, i, score, item, ext_score(mx)), "pq-pop-order"))
                    return viol, nstates
                del m[item]
                stats.inc("op_pop")
            elif name == "change":
                item, s = op[2], op[3]
                if item not in m:
                    continue
                inst["obj"].change_score(item, tuple(s) if isinstance(s, list) else s)
                m[item] = norm_score(s)
                stats.inc("op_change")
            else:
                continue
            for j, other in sorted(live.items()):
                if len(other["obj"]) != len(other["model"]):
                    viol.append(violation("pq-instances-interfere" if j != i else "pq-len", "after op %d on instance %d: instance %d has len %d, its model %d" % (
                        step, i, j, len(other["obj"]), len(other["model"])), "pq-instances-interfere" if j != i else "pq-len"))
                    return viol, nstates
                for it in other["vals"]:
                    got = other["obj"].get_score_by_item(it)
                    want = ext_score(other["model"][it]) if it in other["model"] else None
                    if got != want:
                        viol.append(violation("pq-instances-interfere" if j != i else "pq-score",
                                              "after op %d on instance %d: instance %d: get_score_by_item(%d)=%r, model says %r" % (step, i, j, it, got, want),
                                              "pq-instances-interfere" if j != i else "pq-score"))
                        return viol, nstates
        nstates += 1
        log.add("step", [i, name])
    stats.inc("multi_instance_steps", nstates)
    return viol, nstates


class AdtEngine(Engine):
    name = "adtsim"
    properties = ("C18",)
    optimize_subpass = {"quick": 32000, "thorough": 400000}  # cases of the second pass under python -O

    def tiers(self, prop):
        return {
            "quick": dict(cases=128000, per_batch=2000, budget_s=150, batch_timeout=120, min_budget_s=60),
            "thorough": dict(cases=4000000, per_batch=5000, budget_s=1200, batch_timeout=300, min_budget_s=120),
        }

    def gen(self, prop, rng, tier):
        x = rng.random()
        if x < 0.002:
            return gen_cf_big(rng, tier)
        if x < 0.62:
            return gen_pq(rng, tier)
        if x < 0.9:
            return gen_cf(rng, tier)
        return gen_multi(rng, tier)

    def run(self, prop, case):
        log = EventLog()
        stats = Counter()
        try:
            if case["kind"] == "pq":
                viol, nstates = run_pq(case, log, stats)
                stats.inc("pq_histories")
            elif case["kind"] == "cf-big":
                viol, nstates = run_cf_big(case, log, stats)
                stats.inc("cf_histories")
            elif case["kind"] == "multi":
                viol, nstates = run_multi(case, log, stats)
                stats.inc("multi_instance_histories")
            else:
                viol, nstates = run_cf(case, log, stats)
                stats.inc("cf_histories")
        except Exception as e:  # an exception escaping a legal operation is a violation of the model
            import traceback

            tb = traceback.format_exc()
            cls = "pq-exception" if case["kind"] == "pq" else "cf-exception"
            viol, nstates = [violation(cls, "legal operation raised %s: %s\n%s" % (type(e).__name__, e, tb[-600:]), cls + ":" + type(e).__name__)], 0
        for v in viol:
            log.add("violation", v["class"])
        return {
            "log_digest": log.digest(),
            "violations": viol,
            "stats": stats,
            "nontrivial": nstates >= 2,
            "shape": case["kind"] + ":" + log.digest()[:20],
        }

    def shrink(self, prop, case):
        ops = case["ops"]
        n = len(ops)
        # drop chunks (ddmin style), large to small
        size = n // 2
        while size >= 1:
            for start in range(0, n, size):
                cand = dict(case)
                cand["ops"] = ops[:start] + ops[start + size:]
                if len(cand["ops"]) < n:
                    yield cand
            size //= 2
        # simplify scores
        for i, op in enumerate(ops):
            if op[0] == "push" and isinstance(op[1], list) and len(op[1]) > 1:
                cand = dict(case)
                cand["ops"] = ops[:i] + [["push", op[1][:-1], op[2]]] + ops[i + 1:]
                yield cand
            if op[0] == "change" and isinstance(op[2], list) and len(op[2]) > 1:
                cand = dict(case)
                cand["ops"] = ops[:i] + [["change", op[1], op[2][:-1]]] + ops[i + 1:]
                yield cand
        for i, op in enumerate(ops):
            for pos in ((1,) if op[0] == "push" else (2,) if op[0] == "change" else ()):
                s = op[pos]
                small = None
                if isinstance(s, int) and abs(s) > 3:
                    small = s // 2
                elif isinstance(s, list) and any(abs(x) > 3 for x in s):
                    small = [x // 2 if abs(x) > 3 else x for x in s]
                if small is not None:
                    cand = dict(case)
                    new = list(op)
                    new[pos] = small
                    cand["ops"] = ops[:i] + [new] + ops[i + 1:]
                    yield cand

    def describe(self, prop):
        return {
            "rule": "case i is generated from Random('C18:<seed>:<i>'): 70% PriorityQueue histories (item domain 2-40, score width 1..2^30, "
                    "scalar/tuple/mixed-length scores, push/pop/change/fill-drain mixes, change target biased to root/inner/leaf), 30% "
                    "ComponentFinder histories (int/negative/tuple/str values; random, chain, star and pairs-then-join merge orders). "
                    "After every operation the whole item/value domain is compared with a dict / set-partition model (ComponentFinder is "
                    "observed on a deep copy so that observation never compresses paths); every queue is drained at the end. A case is "
                    "non-trivial when it reaches >=2 distinct model states; distinct = distinct event-log digest (operation results and "
                    "model-state sequence).",
            "assumptions": [
                "contract from the docstrings and the only caller (readselect.pyx): an item is pushed only while not queued, change_score only on queued items, merge(x,y) with x != y",
                "scores and items fit a C int",
                "sampling, not proof: a clean run is evidence for the histories generated",
            ],
            "real_vs_stub": {"real": ["whatshap.priorityqueue.PriorityQueue (Cython/C++)", "whatshap.graph.ComponentFinder"],
                             "stub": [], "model": ["dict item->score tuple", "explicit set partition"],
                             "faults_injected": "none (no clock, schedule, I/O or callback at this interface)"},
        }

    def evidence_extra(self, prop, stats):
        return {
            "fault_kinds_fired": {},
            "simulated_time_s": 0,
            "distinct_model_states_sum_over_histories": stats.get("pq_states", 0) + stats.get("cf_partitions", 0),
        }

    def required_reach(self, prop, tier):
        return {"op_pop": 100, "op_change": 100, "op_merge": 100, "pop_with_ties": 10, "change_root_candidate": 10}

    def sample(self, prop, case):
        c = dict(case)
        c["ops"] = case["ops"][:25] + (["... %d more" % (len(case["ops"]) - 25)] if len(case["ops"]) > 25 else [])
        return c


ENGINE = AdtEngine()
