#!/venv/bin/python
"""tools_store_seeded.py <id> <check-id> <first_run_missed text> <class> [<class> ...]: store a confirmed seeded change from /tmp/mutwork/<id>/"""
import json, os, shutil, subprocess, sys

name, prop, missed = sys.argv[1], sys.argv[2], sys.argv[3]
classes = sys.argv[4:]
src = "/tmp/mutwork/%s" % name
dst = "/verif/seeded/%s" % name
os.makedirs(dst, exist_ok=True)
for f in ("patch.diff", "demo.py"):
    shutil.copy(os.path.join(src, f), os.path.join(dst, f))
meta = json.load(open(os.path.join(src, "meta.json")))
meta.setdefault("origin", "fresh sub-agent given the property text, a list of ideas already used (to avoid repeats) and its own scratch worktree")
meta["base_commit"] = subprocess.check_output(["git", "-C", "/repo", "rev-parse", "--short", "HEAD"], text=True).strip()
meta["confirmed"] = {"by": "tools_confirm_seeded.sh in a fresh worktree of /repo HEAD", "test_suite_with_change": "430 passed, 3 baseline failures",
                     "demo_without_change": "exit 0", "demo_with_change": "exit 1"}
meta["caught_by"] = {"check": "./vcheck run %s --tier quick" % prop, "classes": classes, "first_run_missed": missed}
json.dump(meta, open(os.path.join(dst, "meta.json"), "w"), indent=1)
print("stored", dst)
