#!/bin/bash
# Confirm a seeded change independently in a scratch worktree:
#   tools_confirm_seeded.sh <dir with patch.diff demo.py meta.json> <name>
# 1. existing test suite with the change = baseline (430 pass, 3 always-fail), 2. demo fails with it, 3. demo passes without it.
set -u
SRC=$1; NAME=$2
WT=/tmp/mut/verify_$NAME
S=$(/verif/vcheck build 2>/dev/null | tail -1)
git -C /repo worktree remove --force $WT 2>/dev/null
git -C /repo worktree add -q --detach $WT HEAD || exit 2
(cd $S && find whatshap -name "*.so" | while read f; do cp $f $WT/$f; done)
cp /repo/whatshap/_version.py $WT/whatshap/
cd $WT
sed "s#/tmp/mut/${NAME}#$WT#g" $SRC/demo.py > /tmp/mut/demo_$NAME.py
echo "== demo WITHOUT the change"; PYTHONPATH=$WT /venv/bin/python /tmp/mut/demo_$NAME.py > /tmp/mut/demo_$NAME.without.log 2>&1; echo "exit $?"
git apply $SRC/patch.diff || { echo "PATCH DOES NOT APPLY"; exit 2; }
if git diff --name-only | grep -qE '\.(pyx|pxd|cpp|h)$'; then echo "== rebuilding"; /venv/bin/python setup.py build_ext --inplace -j 8 > /tmp/mut/build_$NAME.log 2>&1 || { echo BUILD FAILED; tail -5 /tmp/mut/build_$NAME.log; }; fi
echo "== test suite WITH the change"; PYTHONPATH=$WT /venv/bin/python -m pytest -q -p no:cacheprovider 2>&1 | tail -4
echo "== demo WITH the change"; PYTHONPATH=$WT /venv/bin/python /tmp/mut/demo_$NAME.py > /tmp/mut/demo_$NAME.with.log 2>&1; echo "exit $?"; tail -5 /tmp/mut/demo_$NAME.with.log
cd /; git -C /repo worktree remove --force $WT
